package govc

import (
	"fmt"
	"go/ast"
	"go/constant"
	"go/token"
	"go/types"
	"math/big"

	"bngvc/smt"
)

// lval is an assignable location.
type lval struct {
	load  func() smt.Term
	store func(v smt.Term)
	typ   types.Type
}

func (fv *funcVerifier) typeOf(e ast.Expr) types.Type {
	if t := fv.info.TypeOf(e); t != nil {
		return t
	}
	return types.Typ[types.Invalid]
}

// fresh returns an unconstrained but type-valid value of type t.
func (fv *funcVerifier) fresh(st *State, hint string, t types.Type) smt.Term {
	v := fv.c.Fresh(hint, fv.so.sortOf(t))
	fv.assume(st, fv.so.valid(v, t, st.frontier))
	return v
}

// freshNonNil returns a fresh non-nil reference-like value.
func (fv *funcVerifier) freshNonNil(st *State, hint string, t types.Type) smt.Term {
	v := fv.fresh(st, hint, t)
	if isRefLike(t) {
		fv.assume(st, smt.Ne(v, smt.IntLit(0)))
	}
	return v
}

func constToTerm(fv *funcVerifier, val constant.Value, t types.Type) (smt.Term, bool) {
	switch val.Kind() {
	case constant.Bool:
		return smt.BoolLit(constant.BoolVal(val)), true
	case constant.Int:
		if isFloat(t) {
			return smt.Term{S: val.ExactString() + ".0", Sort: "Real"}, true
		}
		bi, ok := new(big.Int).SetString(val.ExactString(), 10)
		if !ok {
			return smt.Term{}, false
		}
		return smt.BigLit(bi), true
	case constant.String:
		return fv.so.strConst(constant.StringVal(val)), true
	case constant.Float:
		if isInteger(t) {
			if iv := constant.ToInt(val); iv.Kind() == constant.Int {
				bi, _ := new(big.Int).SetString(iv.ExactString(), 10)
				return smt.BigLit(bi), true
			}
		}
		f, _ := constant.Float64Val(val)
		r := new(big.Rat)
		r.SetFloat64(f)
		if r.Sign() < 0 {
			r.Neg(r)
			return smt.Term{S: fmt.Sprintf("(- (/ %s.0 %s.0))", r.Num().String(), r.Denom().String()), Sort: "Real"}, true
		}
		return smt.Term{S: fmt.Sprintf("(/ %s.0 %s.0)", r.Num().String(), r.Denom().String()), Sort: "Real"}, true
	}
	return smt.Term{}, false
}

// coerce converts a value of Go type from to Go type to (implicit conversions).
func (fv *funcVerifier) coerce(st *State, v smt.Term, from, to types.Type) smt.Term {
	if from == nil || to == nil {
		return v
	}
	ss, ts := fv.so.sortOf(from), fv.so.sortOf(to)
	if _, isIface := to.Underlying().(*types.Interface); isIface {
		if _, fromIface := from.Underlying().(*types.Interface); fromIface {
			return v
		}
		if b, ok := from.Underlying().(*types.Basic); ok && b.Kind() == types.UntypedNil {
			return smt.IntLit(0)
		}
		if isRefLike(from) {
			return v // pointer-in-interface identity (idealisation: typed nil == nil)
		}
		// boxing a concrete value: non-nil opaque reference, functional in the value
		fn := "box_" + smt.Sanitize(ss)
		fv.c.DeclareFun(fn, []string{ss}, smt.Int)
		r := smt.App(smt.Int, fn, v)
		fv.assume(st, smt.Gt(r, smt.IntLit(0)))
		return r
	}
	if b, ok := from.Underlying().(*types.Basic); ok && b.Kind() == types.UntypedNil {
		return fv.so.zero(to)
	}
	if ss != ts {
		if ss == smt.Int && ts == "Real" {
			return smt.App("Real", "to_real", v)
		}
		fv.unsupported("cannot coerce %s (%s) to %s (%s)", from, ss, to, ts)
	}
	return v
}

// evalExpr evaluates a single-valued expression.
func (fv *funcVerifier) evalExpr(st *State, e ast.Expr) smt.Term {
	if st.dead() {
		return fv.c.Fresh("dead", fv.so.sortOf(fv.typeOf(e)))
	}
	if tv, ok := fv.info.Types[e]; ok && tv.Value != nil {
		if t, ok := constToTerm(fv, tv.Value, tv.Type); ok {
			return t
		}
	}
	switch x := e.(type) {
	case *ast.ParenExpr:
		return fv.evalExpr(st, x.X)
	case *ast.BasicLit:
		fv.unsupported("literal %s", x.Value)
	case *ast.Ident:
		return fv.evalIdent(st, x)
	case *ast.SelectorExpr:
		return fv.evalSelector(st, x)
	case *ast.StarExpr:
		p := fv.evalExpr(st, x.X)
		fv.nilCheck(st, p, x.X, x.Pos())
		pt := fv.typeOf(x.X).Underlying().(*types.Pointer)
		return fv.loadAt(st, p, pt.Elem())
	case *ast.UnaryExpr:
		return fv.evalUnary(st, x)
	case *ast.BinaryExpr:
		return fv.evalBinary(st, x)
	case *ast.IndexExpr:
		return fv.evalIndex(st, x)
	case *ast.SliceExpr:
		return fv.evalSlice(st, x)
	case *ast.CallExpr:
		rs := fv.evalCall(st, x)
		if len(rs) != 1 {
			fv.unsupported("call %s used as single value has %d results", fv.exprStr(x.Fun), len(rs))
		}
		return rs[0]
	case *ast.CompositeLit:
		return fv.evalComposite(st, x, false)
	case *ast.FuncLit:
		fv.note("function literal treated as opaque non-nil value; its body is verified separately only when listed")
		return fv.freshNonNil(st, "funclit", fv.typeOf(e))
	case *ast.TypeAssertExpr:
		v := fv.evalExpr(st, x.X)
		_ = v
		if x.Type == nil {
			fv.unsupported("type switch guard outside switch")
		}
		if fv.opt.NoPanic {
			fv.note("single-value type assertion %s: failure panic not excluded (needs dynamic type contract)", fv.exprStr(x))
		}
		return fv.fresh(st, "tassert", fv.typeOf(e))
	case *ast.KeyValueExpr:
		fv.unsupported("key-value outside composite")
	}
	fv.unsupported("expression %T", e)
	return smt.Term{}
}

func (fv *funcVerifier) nilCheck(st *State, p smt.Term, e ast.Expr, pos token.Pos) {
	if fv.opt.NoPanic {
		fv.assert(st, "nopanic", "nil:"+fv.exprStr(e), pos, smt.Ne(p, smt.IntLit(0)))
	} else {
		fv.assume(st, smt.Ne(p, smt.IntLit(0)))
	}
}

func (fv *funcVerifier) evalIdent(st *State, x *ast.Ident) smt.Term {
	if x.Name == "_" {
		fv.unsupported("blank identifier read")
	}
	obj := fv.info.Uses[x]
	if obj == nil {
		obj = fv.info.Defs[x]
	}
	switch o := obj.(type) {
	case *types.Nil:
		return fv.so.zero(fv.typeOf(x))
	case *types.Var:
		if fv.volatile[o] {
			fv.note("variable %s is aliased (address-of field / closure / array slicing): reads are havocked", o.Name())
			return fv.fresh(st, "vol_"+o.Name(), o.Type())
		}
		if t, ok := st.vars[o]; ok {
			if fv.boxed[o] {
				return fv.loadAt(st, t, o.Type())
			}
			return t
		}
		if o.Pkg() != nil && o.Parent() == o.Pkg().Scope() {
			return fv.globalLval(st, o).load()
		}
		// captured variable of an enclosing function (closure body verified separately)
		v := fv.fresh(st, "cap_"+o.Name(), o.Type())
		st.vars[o] = v
		return v
	case *types.Func:
		return fv.freshNonNil(st, "func_"+o.Name(), o.Type())
	case *types.Const:
		if t, ok := constToTerm(fv, o.Val(), o.Type()); ok {
			return t
		}
	}
	fv.unsupported("identifier %s (%T)", x.Name, obj)
	return smt.Term{}
}

func (fv *funcVerifier) globalLval(st *State, o *types.Var) lval {
	if _, isErr := o.Type().Underlying().(*types.Interface); isErr && o.Type().String() == "error" {
		name := "sentinel_" + ShortPkg(o.Pkg().Path()) + "_" + o.Name()
		if !fv.c.Has(name) {
			t := fv.c.Const(name, smt.Int)
			fv.c.Axiom("pos_"+name, smt.Gt(t, smt.IntLit(0)), name)
			fv.c.DeclareFun("err_is", []string{smt.Int}, smt.Int)
			fv.c.Axiom("root_"+name, smt.Eq(smt.App(smt.Int, "err_is", t), t), name)
			fv.sentinels = append(fv.sentinels, name)
		}
		t := smt.Term{S: name, Sort: smt.Int}
		return lval{typ: o.Type(), load: func() smt.Term { return t }, store: func(smt.Term) {
			fv.unsupported("assignment to error sentinel %s", o.Name())
		}}
	}
	key := "g:" + ShortPkg(o.Pkg().Path()) + "." + o.Name()
	so := fv.so.sortOf(o.Type())
	fv.regHeap(key, smt.Arr(smt.Int, so))
	return lval{typ: o.Type(),
		load: func() smt.Term {
			fv.instFrames(key, smt.IntLit(0))
			v := fv.c.Let("g_"+o.Name(), smt.Select(fv.heapGet(st, key), smt.IntLit(0)))
			fv.assume(st, fv.so.valid(v, o.Type(), st.frontier))
			return v
		},
		store: func(v smt.Term) {
			fv.mut++
			fv.heapSet(st, key, smt.Store(fv.heapGet(st, key), smt.IntLit(0), v))
		}}
}

// ---- heap access ----

// interiorPtr records that reference p denotes element pos of backing array arr (elements of struct type elem).
type interiorPtr struct {
	p, arr, pos smt.Term
	elem        types.Type
}

func (fv *funcVerifier) fieldLval(st *State, ref smt.Term, structType types.Type, f *structField) lval {
	key := fv.so.fieldKey(structType, f.name)
	fv.regHeap(key, smt.Arr(smt.Int, f.sort))
	var ints []interiorPtr
	if !hasBoundVar(ref) {
		for _, e := range fv.interior {
			if types.Identical(e.elem, structType) {
				ints = append(ints, e)
			}
		}
	}
	return lval{typ: f.typ,
		load: func() smt.Term {
			if fv.volField[f.name] {
				return fv.fresh(st, "volf_"+f.name, f.typ)
			}
			fv.instFrames(key, ref)
			if hasBoundVar(ref) {
				// inside a quantifier of a spec: no definition/assumption may capture the bound variable
				return smt.Select(fv.heapGet(st, key), ref)
			}
			raw := smt.Select(fv.heapGet(st, key), ref)
			for _, e := range ints {
				mk := fv.memKey(e.elem)
				fv.instFrames(mk, e.arr)
				raw = smt.Ite(smt.Eq(ref, e.p), smt.App(f.sort, f.sel, smt.Select(smt.Select(fv.heapGet(st, mk), e.arr), e.pos)), raw)
			}
			v := fv.c.Let("f_"+f.name, raw)
			fv.assume(st, fv.so.valid(v, f.typ, st.frontier))
			return v
		},
		store: func(v smt.Term) {
			fv.mut++
			if len(ints) == 0 {
				fv.heapSet(st, key, smt.Store(fv.heapGet(st, key), ref, v))
				return
			}
			si := fv.so.structOf(structType)
			any := smt.False
			for _, e := range ints {
				mk := fv.memKey(e.elem)
				m := fv.heapGet(st, mk)
				el := smt.Select(smt.Select(m, e.arr), e.pos)
				var args []smt.Term
				for j := range si.fields {
					if si.fields[j].name == f.name {
						args = append(args, v)
					} else {
						args = append(args, smt.App(si.fields[j].sort, si.fields[j].sel, el))
					}
				}
				hit := smt.Eq(ref, e.p)
				fv.heapSet(st, mk, smt.Ite(hit, smt.Store(m, e.arr, smt.Store(smt.Select(m, e.arr), e.pos, smt.App(si.sort, si.ctor, args...))), m))
				any = smt.Or(any, hit)
			}
			h := fv.heapGet(st, key)
			fv.heapSet(st, key, smt.Ite(any, h, smt.Store(h, ref, v)))
		}}
}

// loadAt loads the value of type t stored at reference ref.
func (fv *funcVerifier) loadAt(st *State, ref smt.Term, t types.Type) smt.Term {
	return fv.derefLval(st, ref, t).load()
}

func (fv *funcVerifier) storeAt(st *State, ref smt.Term, t types.Type, v smt.Term) {
	fv.derefLval(st, ref, t).store(v)
}

func (fv *funcVerifier) derefLval(st *State, ref smt.Term, t types.Type) lval {
	if _, opaque := opaqueNamed(t); !opaque {
		if _, ok := t.Underlying().(*types.Struct); ok {
			si := fv.so.structOf(t)
			return lval{typ: t,
				load: func() smt.Term {
					var args []smt.Term
					for i := range si.fields {
						args = append(args, fv.fieldLval(st, ref, t, &si.fields[i]).load())
					}
					if hasBoundVar(ref) {
						// spec read at a quantified reference: no definition may capture the bound variable
						return smt.App(si.sort, si.ctor, args...)
					}
					return fv.c.Let("ld_"+si.sort, smt.App(si.sort, si.ctor, args...))
				},
				store: func(v smt.Term) {
					for i := range si.fields {
						f := &si.fields[i]
						fv.fieldLval(st, ref, t, f).store(smt.App(f.sort, f.sel, v))
					}
				}}
		}
	}
	so := fv.so.sortOf(t)
	key := "ptr:" + so
	fv.regHeap(key, smt.Arr(smt.Int, so))
	return lval{typ: t,
		load: func() smt.Term {
			fv.instFrames(key, ref)
			if hasBoundVar(ref) {
				return smt.Select(fv.heapGet(st, key), ref)
			}
			v := fv.c.Let("deref", smt.Select(fv.heapGet(st, key), ref))
			fv.assume(st, fv.so.valid(v, t, st.frontier))
			return v
		},
		store: func(v smt.Term) {
			fv.mut++
			fv.heapSet(st, key, smt.Store(fv.heapGet(st, key), ref, v))
		}}
}

func (fv *funcVerifier) memKey(elem types.Type) string {
	so := fv.so.sortOf(elem)
	key := "mem:" + so
	fv.regHeap(key, smt.Arr(smt.Int, smt.Arr(smt.Int, so)))
	return key
}

func (fv *funcVerifier) sliceElemLval(st *State, s smt.Term, idx smt.Term, elem types.Type) lval {
	key := fv.memKey(elem)
	arr := slArr(s)
	pos := smt.Add(slOff(s), idx)
	return lval{typ: elem,
		load: func() smt.Term {
			fv.instFrames(key, arr)
			v := fv.c.Let("el", smt.Select(smt.Select(fv.heapGet(st, key), arr), pos))
			fv.assume(st, fv.so.valid(v, elem, st.frontier))
			return v
		},
		store: func(v smt.Term) {
			fv.mut++
			m := fv.heapGet(st, key)
			fv.heapSet(st, key, smt.Store(m, arr, smt.Store(smt.Select(m, arr), pos, v)))
		}}
}

func structFieldLval(fv *funcVerifier, parent lval, si *structInfo, idx int) lval {
	f := &si.fields[idx]
	return lval{typ: f.typ,
		load: func() smt.Term { return smt.App(f.sort, f.sel, parent.load()) },
		store: func(v smt.Term) {
			p := parent.load()
			var args []smt.Term
			for j := range si.fields {
				if j == idx {
					args = append(args, v)
				} else {
					args = append(args, smt.App(si.fields[j].sort, si.fields[j].sel, p))
				}
			}
			parent.store(fv.c.Let("upd_"+si.sort, smt.App(si.sort, si.ctor, args...)))
		}}
}

func arrayElemLval(fv *funcVerifier, parent lval, idx smt.Term, elem types.Type) lval {
	es := fv.so.sortOf(elem)
	return lval{typ: elem,
		load:  func() smt.Term { return smt.App(es, "select", parent.load(), idx) },
		store: func(v smt.Term) { parent.store(smt.Store(parent.load(), idx, v)) }}
}

// ---- selectors ----

// cursor is a position while walking a selection path.
type cursor struct {
	isPtr bool
	ref   smt.Term // when isPtr
	lv    lval     // when !isPtr
	typ   types.Type
}

func derefType(t types.Type) (types.Type, bool) {
	if p, ok := t.Underlying().(*types.Pointer); ok {
		return p.Elem(), true
	}
	return t, false
}

// selectLval resolves x.f (possibly through embedded fields) to a location.
func (fv *funcVerifier) selectLval(st *State, x *ast.SelectorExpr) (lval, bool) {
	sel, ok := fv.info.Selections[x]
	if !ok || sel.Kind() != types.FieldVal {
		return lval{}, false
	}
	baseT := fv.typeOf(x.X)
	var cur cursor
	if elemT, isPtr := derefType(baseT); isPtr {
		p := fv.evalExpr(st, x.X)
		fv.nilCheck(st, p, x.X, x.Pos())
		cur = cursor{isPtr: true, ref: p, typ: elemT}
	} else {
		// struct value: need an lvalue if addressable, else a value
		if blv, ok := fv.tryLval(st, x.X); ok {
			cur = cursor{lv: blv, typ: baseT}
		} else {
			v := fv.evalExpr(st, x.X)
			cur = cursor{lv: lval{typ: baseT, load: func() smt.Term { return v }, store: func(smt.Term) {
				fv.unsupported("store into non-addressable struct value")
			}}, typ: baseT}
		}
	}
	idxs := sel.Index()
	for n, i := range idxs {
		if _, opaque := opaqueNamed(cur.typ); opaque {
			// exported field of a library type modelled as opaque (e.g. http.Request.Method):
			// every read yields an arbitrary type-valid value, writes are not tracked
			if n != len(idxs)-1 {
				fv.unsupported("embedded field path through opaque type %s", cur.typ)
			}
			ft := fv.typeOf(x)
			fv.note("field %s of opaque library type %s: reads are unconstrained", x.Sel.Name, cur.typ)
			return lval{typ: ft,
				load:  func() smt.Term { return fv.fresh(st, "opq_"+x.Sel.Name, ft) },
				store: func(smt.Term) {}}, true
		}
		stt, ok := cur.typ.Underlying().(*types.Struct)
		if !ok {
			fv.unsupported("selector on non-struct %s", cur.typ)
		}
		si := fv.so.structOf(cur.typ)
		fname := stt.Field(i).Name()
		fi, f := si.field(fname)
		if f == nil {
			fi, f = i, &si.fields[i]
		}
		var lv lval
		if cur.isPtr {
			lv = fv.fieldLval(st, cur.ref, cur.typ, f)
		} else {
			lv = structFieldLval(fv, cur.lv, si, fi)
		}
		if n == len(idxs)-1 {
			return lv, true
		}
		// intermediate embedded field
		if elemT, isPtr := derefType(f.typ); isPtr {
			p := lv.load()
			fv.nilCheck(st, p, x, x.Pos())
			cur = cursor{isPtr: true, ref: p, typ: elemT}
		} else {
			cur = cursor{lv: lv, typ: f.typ}
		}
	}
	return lval{}, false
}

func (fv *funcVerifier) evalSelector(st *State, x *ast.SelectorExpr) smt.Term {
	// qualified identifier pkg.Name
	if id, ok := x.X.(*ast.Ident); ok {
		if _, isPkg := fv.info.Uses[id].(*types.PkgName); isPkg {
			switch o := fv.info.Uses[x.Sel].(type) {
			case *types.Var:
				return fv.globalLval(st, o).load()
			case *types.Func:
				return fv.freshNonNil(st, "func_"+o.Name(), o.Type())
			case *types.Const:
				if t, ok := constToTerm(fv, o.Val(), o.Type()); ok {
					return t
				}
			}
			fv.unsupported("qualified identifier %s", fv.exprStr(x))
		}
	}
	if lv, ok := fv.selectLval(st, x); ok {
		return lv.load()
	}
	// method value
	if sel, ok := fv.info.Selections[x]; ok && (sel.Kind() == types.MethodVal || sel.Kind() == types.MethodExpr) {
		fv.evalExpr(st, x.X)
		return fv.freshNonNil(st, "methodval", fv.typeOf(x))
	}
	fv.unsupported("selector %s", fv.exprStr(x))
	return smt.Term{}
}

// tryLval returns the location denoted by e when e is addressable.
func (fv *funcVerifier) tryLval(st *State, e ast.Expr) (lval, bool) {
	switch x := e.(type) {
	case *ast.ParenExpr:
		return fv.tryLval(st, x.X)
	case *ast.Ident:
		if x.Name == "_" {
			return lval{typ: nil, load: func() smt.Term { return smt.Term{} }, store: func(smt.Term) {}}, true
		}
		obj := fv.info.Uses[x]
		if obj == nil {
			obj = fv.info.Defs[x]
		}
		v, ok := obj.(*types.Var)
		if !ok {
			return lval{}, false
		}
		if v.Pkg() != nil && v.Parent() == v.Pkg().Scope() {
			return fv.globalLval(st, v), true
		}
		if fv.boxed[v] {
			if r, ok := st.vars[v]; ok {
				return fv.derefLval(st, r, v.Type()), true
			}
		}
		return lval{typ: v.Type(),
			load: func() smt.Term { return fv.evalIdent(st, x) },
			store: func(t smt.Term) {
				fv.mut++
				st.vars[v] = fv.c.Let("v_"+v.Name(), t)
			}}, true
	case *ast.SelectorExpr:
		return fv.selectLval(st, x)
	case *ast.StarExpr:
		p := fv.evalExpr(st, x.X)
		fv.nilCheck(st, p, x.X, x.Pos())
		pt := fv.typeOf(x.X).Underlying().(*types.Pointer)
		return fv.derefLval(st, p, pt.Elem()), true
	case *ast.IndexExpr:
		bt := fv.typeOf(x.X)
		switch u := bt.Underlying().(type) {
		case *types.Slice:
			s := fv.evalExpr(st, x.X)
			i := fv.evalExpr(st, x.Index)
			fv.boundsCheck(st, i, slLen(s), x)
			return fv.sliceElemLval(st, s, i, u.Elem()), true
		case *types.Array:
			parent, ok := fv.tryLval(st, x.X)
			if !ok {
				return lval{}, false
			}
			i := fv.evalExpr(st, x.Index)
			fv.boundsCheck(st, i, smt.IntLit(u.Len()), x)
			return arrayElemLval(fv, parent, i, u.Elem()), true
		case *types.Pointer:
			if at, ok := u.Elem().Underlying().(*types.Array); ok {
				p := fv.evalExpr(st, x.X)
				fv.nilCheck(st, p, x.X, x.Pos())
				i := fv.evalExpr(st, x.Index)
				fv.boundsCheck(st, i, smt.IntLit(at.Len()), x)
				return arrayElemLval(fv, fv.derefLval(st, p, u.Elem()), i, at.Elem()), true
			}
		case *types.Map:
			m := fv.evalExpr(st, x.X)
			k := fv.coerce(st, fv.evalExpr(st, x.Index), fv.typeOf(x.Index), u.Key())
			return fv.mapElemLval(st, m, k, u, x), true
		}
	}
	return lval{}, false
}

func (fv *funcVerifier) lvalueOf(st *State, e ast.Expr) lval {
	lv, ok := fv.tryLval(st, e)
	if !ok {
		fv.unsupported("not assignable: %s", fv.exprStr(e))
	}
	return lv
}

func (fv *funcVerifier) boundsCheck(st *State, i, n smt.Term, e ast.Expr) {
	g := smt.And(smt.Ge(i, smt.IntLit(0)), smt.Lt(i, n))
	if fv.opt.NoPanic {
		fv.assert(st, "nopanic", "index:"+fv.exprStr(e), e.Pos(), g)
	} else {
		fv.assume(st, g)
	}
}

// ---- maps ----

func (fv *funcVerifier) mapKeys(mt *types.Map) (dom, val, ln string) {
	ks, vs := fv.so.sortOf(mt.Key()), fv.so.sortOf(mt.Elem())
	id := ks + ":" + vs
	dom, val, ln = "mapdom:"+id, "mapval:"+id, "maplen:"+id
	fv.regHeap(dom, smt.Arr(smt.Int, smt.Arr(ks, smt.Bool)))
	fv.regHeap(val, smt.Arr(smt.Int, smt.Arr(ks, vs)))
	fv.regHeap(ln, smt.Arr(smt.Int, smt.Int))
	return
}

// mapLookup returns (value, present).
func (fv *funcVerifier) mapLookup(st *State, m, k smt.Term, mt *types.Map) (smt.Term, smt.Term) {
	dom, val, ln := fv.mapKeys(mt)
	fv.instFrames(dom, m)
	fv.instFrames(val, m)
	fv.instFrames(ln, m)
	present := fv.c.Let("present", smt.And(smt.Ne(m, smt.IntLit(0)), smt.Select(smt.Select(fv.heapGet(st, dom), m), k)))
	raw := smt.Select(smt.Select(fv.heapGet(st, val), m), k)
	v := fv.c.Let("mv", smt.Ite(present, raw, fv.so.zero(mt.Elem())))
	fv.assume(st, smt.Implies(present, fv.so.valid(raw, mt.Elem(), st.frontier)))
	fv.assume(st, smt.Implies(present, smt.Ge(smt.Select(fv.heapGet(st, ln), m), smt.IntLit(1))))
	return v, present
}

func (fv *funcVerifier) mapLen(st *State, m smt.Term, mt *types.Map) smt.Term {
	_, _, ln := fv.mapKeys(mt)
	fv.instFrames(ln, m)
	l := fv.c.Let("maplen", smt.Ite(smt.Eq(m, smt.IntLit(0)), smt.IntLit(0), smt.Select(fv.heapGet(st, ln), m)))
	fv.assume(st, smt.And(smt.Ge(l, smt.IntLit(0)), smt.Le(l, smt.IntLit(maxLen))))
	// an empty map has no keys (len is the cardinality of the domain)
	dom, _, _ := fv.mapKeys(mt)
	fv.instFrames(dom, m)
	qk := smt.Term{S: "len_k", Sort: fv.so.sortOf(mt.Key())}
	fv.assume(st, smt.Implies(smt.And(smt.Ne(m, smt.IntLit(0)), smt.Eq(l, smt.IntLit(0))),
		smt.Forall([]smt.Term{qk}, smt.Not(smt.Select(smt.Select(fv.heapGet(st, dom), m), qk)))))
	return l
}

func (fv *funcVerifier) mapElemLval(st *State, m, k smt.Term, mt *types.Map, e ast.Expr) lval {
	dom, val, ln := fv.mapKeys(mt)
	return lval{typ: mt.Elem(),
		load: func() smt.Term { v, _ := fv.mapLookup(st, m, k, mt); return v },
		store: func(v smt.Term) {
			fv.mut++
			if fv.opt.NoPanic {
				fv.assert(st, "nopanic", "nilmap:"+fv.exprStr(e), e.Pos(), smt.Ne(m, smt.IntLit(0)))
			} else {
				fv.assume(st, smt.Ne(m, smt.IntLit(0)))
			}
			d := fv.heapGet(st, dom)
			was := smt.Select(smt.Select(d, m), k)
			l := fv.heapGet(st, ln)
			fv.heapSet(st, ln, smt.Store(l, m, smt.Ite(was, smt.Select(l, m), smt.Add(smt.Select(l, m), smt.IntLit(1)))))
			fv.heapSet(st, dom, smt.Store(d, m, smt.Store(smt.Select(d, m), k, smt.True)))
			vv := fv.heapGet(st, val)
			fv.heapSet(st, val, smt.Store(vv, m, smt.Store(smt.Select(vv, m), k, v)))
		}}
}

func (fv *funcVerifier) mapDelete(st *State, m, k smt.Term, mt *types.Map) {
	dom, _, ln := fv.mapKeys(mt)
	fv.mut++
	d := fv.heapGet(st, dom)
	was := smt.And(smt.Ne(m, smt.IntLit(0)), smt.Select(smt.Select(d, m), k))
	l := fv.heapGet(st, ln)
	fv.assume(st, smt.Implies(was, smt.Ge(smt.Select(l, m), smt.IntLit(1))))
	fv.heapSet(st, ln, smt.Store(l, m, smt.Ite(was, smt.Sub(smt.Select(l, m), smt.IntLit(1)), smt.Select(l, m))))
	fv.heapSet(st, dom, smt.Store(d, m, smt.Store(smt.Select(d, m), k, smt.False)))
}

// newMap allocates an empty map.
func (fv *funcVerifier) newMap(st *State, mt *types.Map) smt.Term {
	dom, _, ln := fv.mapKeys(mt)
	ks := fv.so.sortOf(mt.Key())
	r := fv.alloc(st, "map")
	fv.mut++
	d := fv.heapGet(st, dom)
	empty := smt.Term{S: "((as const " + smt.Arr(ks, smt.Bool) + ") false)", Sort: smt.Arr(ks, smt.Bool)}
	fv.heapSet(st, dom, smt.Store(d, r, empty))
	fv.heapSet(st, ln, smt.Store(fv.heapGet(st, ln), r, smt.IntLit(0)))
	return r
}

// ---- index / slice ----

func (fv *funcVerifier) evalIndex(st *State, x *ast.IndexExpr) smt.Term {
	bt := fv.typeOf(x.X)
	switch u := bt.Underlying().(type) {
	case *types.Slice:
		s := fv.evalExpr(st, x.X)
		i := fv.evalExpr(st, x.Index)
		fv.boundsCheck(st, i, slLen(s), x)
		return fv.sliceElemLval(st, s, i, u.Elem()).load()
	case *types.Array:
		a := fv.evalExpr(st, x.X)
		i := fv.evalExpr(st, x.Index)
		fv.boundsCheck(st, i, smt.IntLit(u.Len()), x)
		v := fv.c.Let("ael", smt.Select(a, i))
		fv.assume(st, fv.so.valid(v, u.Elem(), st.frontier))
		return v
	case *types.Pointer:
		if at, ok := u.Elem().Underlying().(*types.Array); ok {
			p := fv.evalExpr(st, x.X)
			fv.nilCheck(st, p, x.X, x.Pos())
			i := fv.evalExpr(st, x.Index)
			fv.boundsCheck(st, i, smt.IntLit(at.Len()), x)
			v := fv.c.Let("ael", smt.Select(fv.loadAt(st, p, u.Elem()), i))
			fv.assume(st, fv.so.valid(v, at.Elem(), st.frontier))
			return v
		}
	case *types.Map:
		m := fv.evalExpr(st, x.X)
		k := fv.coerce(st, fv.evalExpr(st, x.Index), fv.typeOf(x.Index), u.Key())
		v, _ := fv.mapLookup(st, m, k, u)
		return v
	case *types.Basic:
		if u.Info()&types.IsString != 0 {
			s := fv.evalExpr(st, x.X)
			i := fv.evalExpr(st, x.Index)
			fv.boundsCheck(st, i, smt.App(smt.Int, "str_len", s), x)
			v := fv.c.Let("ch", smt.App(smt.Int, "str_at", s, i))
			fv.assume(st, smt.And(smt.Ge(v, smt.IntLit(0)), smt.Le(v, smt.IntLit(255))))
			return v
		}
	case *types.Signature:
		fv.unsupported("generic instantiation %s", fv.exprStr(x))
	}
	fv.unsupported("index on %s", bt)
	return smt.Term{}
}

func (fv *funcVerifier) sliceBounds(st *State, x *ast.SliceExpr, lo, hi, mx, capT smt.Term, have3 bool) {
	var g smt.Term
	if have3 {
		g = smt.And(smt.Ge(lo, smt.IntLit(0)), smt.Le(lo, hi), smt.Le(hi, mx), smt.Le(mx, capT))
	} else {
		g = smt.And(smt.Ge(lo, smt.IntLit(0)), smt.Le(lo, hi), smt.Le(hi, capT))
	}
	if fv.opt.NoPanic {
		fv.assert(st, "nopanic", "slice:"+fv.exprStr(x), x.Pos(), g)
	} else {
		fv.assume(st, g)
	}
}

func (fv *funcVerifier) evalSlice(st *State, x *ast.SliceExpr) smt.Term {
	bt := fv.typeOf(x.X)
	ev := func(e ast.Expr, def smt.Term) smt.Term {
		if e == nil {
			return def
		}
		return fv.evalExpr(st, e)
	}
	switch u := bt.Underlying().(type) {
	case *types.Slice:
		s := fv.evalExpr(st, x.X)
		lo := ev(x.Low, smt.IntLit(0))
		hi := ev(x.High, slLen(s))
		mx := ev(x.Max, slCap(s))
		fv.sliceBounds(st, x, lo, hi, mx, slCap(s), x.Slice3)
		r := fv.c.Let("sl", mkSlice(slArr(s), smt.Add(slOff(s), lo), smt.Sub(hi, lo), smt.Sub(mx, lo)))
		return r
	case *types.Basic:
		if u.Info()&types.IsString != 0 {
			s := fv.evalExpr(st, x.X)
			n := smt.App(smt.Int, "str_len", s)
			lo := ev(x.Low, smt.IntLit(0))
			hi := ev(x.High, n)
			fv.sliceBounds(st, x, lo, hi, hi, n, false)
			if !fv.c.Has("str_sub_at_declared") {
				fv.c.DeclareFun("str_sub_at_declared", nil, smt.Bool)
				fv.c.DeclareFun("str_sub", []string{StrSort, smt.Int, smt.Int}, StrSort)
				ss, lo2, hi2, k := smt.Term{S: "ss_s", Sort: StrSort}, smt.Term{S: "ss_lo", Sort: smt.Int}, smt.Term{S: "ss_hi", Sort: smt.Int}, smt.Term{S: "ss_k", Sort: smt.Int}
				sub := smt.App(StrSort, "str_sub", ss, lo2, hi2)
				at := smt.App(smt.Int, "str_at", sub, k)
				fv.c.Axiom("str_sub_at", smt.Forall([]smt.Term{ss, lo2, hi2, k},
					smt.Implies(smt.And(smt.Ge(k, smt.IntLit(0)), smt.Lt(k, smt.Sub(hi2, lo2))), smt.Eq(at, smt.App(smt.Int, "str_at", ss, smt.Add(lo2, k)))), at), "str_sub")
			}
			r := fv.c.Let("sub", smt.App(StrSort, "str_sub", s, lo, hi))
			fv.assume(st, smt.Eq(smt.App(smt.Int, "str_len", r), smt.Sub(hi, lo)))
			return r
		}
	case *types.Array, *types.Pointer:
		var at *types.Array
		if a, ok := u.(*types.Array); ok {
			at = a
			fv.evalExpr(st, x.X)
		} else if p, ok := u.(*types.Pointer); ok {
			a, ok := p.Elem().Underlying().(*types.Array)
			if !ok {
				break
			}
			at = a
			pv := fv.evalExpr(st, x.X)
			fv.nilCheck(st, pv, x.X, x.Pos())
		}
		n := smt.IntLit(at.Len())
		lo := ev(x.Low, smt.IntLit(0))
		hi := ev(x.High, n)
		mx := ev(x.Max, n)
		fv.sliceBounds(st, x, lo, hi, mx, n, x.Slice3)
		fv.note("slicing of array %s: the slice is given a fresh backing store (aliasing with the array abstracted; array reads havocked)", fv.exprStr(x.X))
		arr := fv.alloc(st, "arrslice")
		fv.memKey(at.Elem())
		return fv.c.Let("sl", mkSlice(arr, lo, smt.Sub(hi, lo), smt.Sub(mx, lo)))
	}
	fv.unsupported("slice of %s", bt)
	return smt.Term{}
}

// ---- composite literals ----

func (fv *funcVerifier) evalComposite(st *State, x *ast.CompositeLit, addr bool) smt.Term {
	t := fv.typeOf(x)
	if p, ok := t.Underlying().(*types.Pointer); ok && addr {
		t = p.Elem()
	}
	if _, opaque := opaqueNamed(t); opaque {
		for _, el := range x.Elts {
			if kv, ok := el.(*ast.KeyValueExpr); ok {
				fv.evalExpr(st, kv.Value)
			} else {
				fv.evalExpr(st, el)
			}
		}
		return fv.fresh(st, "opaque", t)
	}
	switch u := t.Underlying().(type) {
	case *types.Struct:
		si := fv.so.structOf(t)
		args := make([]smt.Term, len(si.fields))
		for i, f := range si.fields {
			args[i] = fv.so.zero(f.typ)
		}
		for i, el := range x.Elts {
			if kv, ok := el.(*ast.KeyValueExpr); ok {
				name := kv.Key.(*ast.Ident).Name
				fi, f := si.field(name)
				if f == nil {
					fv.unsupported("unknown field %s", name)
				}
				args[fi] = fv.coerce(st, fv.evalElem(st, kv.Value, f.typ), fv.typeOf(kv.Value), f.typ)
			} else {
				args[i] = fv.coerce(st, fv.evalElem(st, el, si.fields[i].typ), fv.typeOf(el), si.fields[i].typ)
			}
		}
		return fv.c.Let("lit_"+si.sort, smt.App(si.sort, si.ctor, args...))
	case *types.Slice:
		n := int64(0)
		type kv struct {
			idx int64
			val smt.Term
		}
		var elems []kv
		next := int64(0)
		for _, el := range x.Elts {
			ve := el
			if k, ok := el.(*ast.KeyValueExpr); ok {
				tv := fv.info.Types[k.Key]
				if tv.Value == nil {
					fv.unsupported("non-constant slice literal key")
				}
				i64, _ := constant.Int64Val(tv.Value)
				next = i64
				ve = k.Value
			}
			v := fv.coerce(st, fv.evalElem(st, ve, u.Elem()), fv.typeOf(ve), u.Elem())
			elems = append(elems, kv{next, v})
			next++
			if next > n {
				n = next
			}
		}
		arr := fv.alloc(st, "lit")
		key := fv.memKey(u.Elem())
		es := fv.so.sortOf(u.Elem())
		content := smt.Term{S: "((as const " + smt.Arr(smt.Int, es) + ") " + fv.so.zero(u.Elem()).S + ")", Sort: smt.Arr(smt.Int, es)}
		for _, e := range elems {
			content = smt.Store(content, smt.IntLit(e.idx), e.val)
		}
		fv.mut++
		fv.heapSet(st, key, smt.Store(fv.heapGet(st, key), arr, content))
		return mkSlice(arr, smt.IntLit(0), smt.IntLit(n), smt.IntLit(n))
	case *types.Array:
		content := fv.so.zero(t)
		next := int64(0)
		for _, el := range x.Elts {
			ve := el
			if k, ok := el.(*ast.KeyValueExpr); ok {
				tv := fv.info.Types[k.Key]
				if tv.Value == nil {
					fv.unsupported("non-constant array literal key")
				}
				next, _ = constant.Int64Val(tv.Value)
				ve = k.Value
			}
			v := fv.coerce(st, fv.evalElem(st, ve, u.Elem()), fv.typeOf(ve), u.Elem())
			content = smt.Store(content, smt.IntLit(next), v)
			next++
		}
		return fv.c.Let("arrlit", content)
	case *types.Map:
		m := fv.newMap(st, u)
		for _, el := range x.Elts {
			k := el.(*ast.KeyValueExpr)
			kt := fv.coerce(st, fv.evalElem(st, k.Key, u.Key()), fv.typeOf(k.Key), u.Key())
			vt := fv.coerce(st, fv.evalElem(st, k.Value, u.Elem()), fv.typeOf(k.Value), u.Elem())
			fv.mapElemLval(st, m, kt, u, x).store(vt)
		}
		return m
	}
	fv.unsupported("composite literal of %s", t)
	return smt.Term{}
}

// evalElem evaluates a composite element, handling elided inner literal types.
func (fv *funcVerifier) evalElem(st *State, e ast.Expr, want types.Type) smt.Term {
	if cl, ok := e.(*ast.CompositeLit); ok && cl.Type == nil {
		if p, ok := want.Underlying().(*types.Pointer); ok {
			v := fv.evalComposite(st, cl, true)
			r := fv.alloc(st, "lit")
			fv.storeAt(st, r, p.Elem(), v)
			return r
		}
		return fv.evalComposite(st, cl, false)
	}
	return fv.evalExpr(st, e)
}

// ---- unary / binary ----

func (fv *funcVerifier) evalUnary(st *State, x *ast.UnaryExpr) smt.Term {
	switch x.Op {
	case token.NOT:
		return smt.Not(fv.evalExpr(st, x.X))
	case token.SUB:
		v := fv.evalExpr(st, x.X)
		t := fv.typeOf(x)
		if isFloat(t) {
			return smt.App("Real", "-", v)
		}
		return fv.wrap(smt.Neg(v), t)
	case token.ADD:
		return fv.evalExpr(st, x.X)
	case token.XOR:
		v := fv.evalExpr(st, x.X)
		t := fv.typeOf(x)
		if lo, hi, ok := intRange(t); ok {
			if lo.Sign() == 0 {
				return smt.Sub(smt.BigLit(hi), v)
			}
			return smt.Sub(smt.IntLit(-1), v)
		}
		fv.unsupported("^ on %s", t)
	case token.AND:
		inner := ast.Unparen(x.X)
		if cl, ok := inner.(*ast.CompositeLit); ok {
			v := fv.evalComposite(st, cl, true)
			pt := fv.typeOf(x).Underlying().(*types.Pointer)
			r := fv.alloc(st, "new")
			fv.storeAt(st, r, pt.Elem(), v)
			return r
		}
		if id, ok := inner.(*ast.Ident); ok {
			if v, ok := fv.info.Uses[id].(*types.Var); ok && fv.boxed[v] {
				if r, ok := st.vars[v]; ok {
					return r
				}
			}
			if v, ok := fv.info.Uses[id].(*types.Var); ok && v.Pkg() != nil && v.Parent() == v.Pkg().Scope() {
				name := "addr_g_" + ShortPkg(v.Pkg().Path()) + "_" + v.Name()
				t := fv.c.Const(name, smt.Int)
				fv.assume(st, smt.Gt(t, smt.IntLit(0)))
				fv.note("address of package variable %s: opaque pointer", v.Name())
				return t
			}
		}
		// &s[i] with s a slice of structs: interior pointer, accesses through it are
		// redirected to the slice element (see fieldLval)
		if ix, ok := inner.(*ast.IndexExpr); ok {
			if sl, ok := fv.typeOf(ix.X).Underlying().(*types.Slice); ok {
				if _, isStruct := sl.Elem().Underlying().(*types.Struct); isStruct {
					if _, opaque := opaqueNamed(sl.Elem()); !opaque {
						sv := fv.evalExpr(st, ix.X)
						iv := fv.evalExpr(st, ix.Index)
						fv.boundsCheck(st, iv, slLen(sv), ix)
						r := fv.alloc(st, "elemptr")
						fv.interior = append(fv.interior, interiorPtr{p: r, arr: slArr(sv), pos: fv.c.Let("epos", smt.Add(slOff(sv), iv)), elem: sl.Elem()})
						fv.note("address-of %s: interior pointer, field accesses through it are redirected to the slice element (pointer identity of interior pointers is not modelled)", fv.exprStr(inner))
						return r
					}
				}
			}
		}
		// &x.f, &s[i]: pointer into an object — abstracted
		fv.evalAddrOperand(st, inner)
		fv.note("address-of %s: pointer into an object is abstracted as a fresh non-nil pointer", fv.exprStr(inner))
		pt := fv.typeOf(x)
		r := fv.freshNonNil(st, "addr", pt)
		fv.havocThrough(st, inner)
		return r
	case token.ARROW:
		fv.evalExpr(st, x.X)
		fv.note("channel receive: value is unconstrained")
		return fv.fresh(st, "recv", fv.typeOf(x))
	}
	fv.unsupported("unary %s", x.Op)
	return smt.Term{}
}

// evalAddrOperand evaluates the operand of & for its panics only.
func (fv *funcVerifier) evalAddrOperand(st *State, e ast.Expr) {
	switch y := e.(type) {
	case *ast.IndexExpr:
		fv.evalExpr(st, y)
	case *ast.SelectorExpr:
		if _, ok := fv.info.Selections[y]; ok {
			fv.selectLval(st, y)
		}
	}
}

// havocThrough marks the object designated by e as volatile from now on.
func (fv *funcVerifier) havocThrough(st *State, e ast.Expr) {
	switch y := e.(type) {
	case *ast.SelectorExpr:
		if sel, ok := fv.info.Selections[y]; ok {
			if v, ok := sel.Obj().(*types.Var); ok {
				fv.volField[v.Name()] = true
			}
		}
	case *ast.IndexExpr:
		// element of a slice: later writes through the pointer are not tracked;
		// the element memory of that sort becomes unknown at every later call/havoc.
		if tv, ok := fv.info.Types[y.X]; ok {
			if sl, ok := tv.Type.Underlying().(*types.Slice); ok {
				fv.volMem[fv.so.sortOf(sl.Elem())] = true
			}
		}
	}
}

func pow2(n int) *big.Int { return new(big.Int).Lsh(big.NewInt(1), uint(n)) }

// wrap reduces a mathematical result into the range of integer type t
// (exact two's-complement wrap-around).
func (fv *funcVerifier) wrap(v smt.Term, t types.Type) smt.Term {
	b, ok := t.Underlying().(*types.Basic)
	if !ok {
		return v
	}
	bits, signed := intBits(b)
	if bits == 0 {
		return v
	}
	if n, ok := smt.IntVal(v); ok {
		m := pow2(bits)
		r := new(big.Int).Mod(n, m)
		if signed && r.Cmp(pow2(bits-1)) >= 0 {
			r.Sub(r, m)
		}
		return smt.BigLit(r)
	}
	v = fv.c.Let("w", v)
	if !signed {
		return fv.c.Let("wr", smt.Mod(v, smt.BigLit(pow2(bits))))
	}
	half := smt.BigLit(pow2(bits - 1))
	return fv.c.Let("wr", smt.Sub(smt.Mod(smt.Add(v, half), smt.BigLit(pow2(bits))), half))
}

// wrapAddSub wraps a value known to be within one modulus of the range.
func (fv *funcVerifier) wrapNear(v smt.Term, t types.Type) smt.Term {
	b, ok := t.Underlying().(*types.Basic)
	if !ok {
		return v
	}
	bits, signed := intBits(b)
	if bits == 0 {
		return v
	}
	if _, ok := smt.IntVal(v); ok {
		return fv.wrap(v, t)
	}
	v = fv.c.Let("w", v)
	m := smt.BigLit(pow2(bits))
	lo, hi, _ := intRange(t)
	_ = signed
	return fv.c.Let("wr", smt.Ite(smt.Gt(v, smt.BigLit(hi)), smt.Sub(v, m), smt.Ite(smt.Lt(v, smt.BigLit(lo)), smt.Add(v, m), v)))
}

// bitInfo describes value = x * 2^shift with 0 <= x < 2^width, if known.
func (fv *funcVerifier) bitInfo(e ast.Expr) (shift, width int, ok bool) {
	e = ast.Unparen(e)
	t := fv.typeOf(e)
	tw := 0
	if b, isB := t.Underlying().(*types.Basic); isB {
		if bits, signed := intBits(b); bits > 0 && !signed {
			tw = bits
		}
	}
	if tv, has := fv.info.Types[e]; has && tv.Value != nil && tv.Value.Kind() == constant.Int {
		if v, exact := constant.Int64Val(tv.Value); exact && v >= 0 {
			w := 0
			for (int64(1) << uint(w)) <= v {
				w++
			}
			return 0, w, true
		}
	}
	switch x := e.(type) {
	case *ast.BinaryExpr:
		if x.Op == token.SHL {
			if tv, has := fv.info.Types[x.Y]; has && tv.Value != nil {
				k, _ := constant.Int64Val(tv.Value)
				s, w, ok := fv.bitInfo(x.X)
				if ok {
					if tw > 0 && s+w+int(k) > tw {
						// high bits are shifted out; the low s+k bits are zero in any case
						if s+int(k) >= tw {
							return 0, 0, true
						}
						return s + int(k), tw - (s + int(k)), true
					}
					return s + int(k), w, true
				}
			}
		}
		if x.Op == token.AND {
			for _, side := range []ast.Expr{x.Y, x.X} {
				if tv, has := fv.info.Types[side]; has && tv.Value != nil {
					if v, exact := constant.Int64Val(tv.Value); exact && v >= 0 {
						w := 0
						for (int64(1) << uint(w)) <= v {
							w++
						}
						return 0, w, true
					}
				}
			}
		}
	case *ast.CallExpr:
		// conversion T(y)
		if tv, has := fv.info.Types[x.Fun]; has && tv.IsType() && len(x.Args) == 1 {
			s, w, ok := fv.bitInfo(x.Args[0])
			if ok && (tw == 0 || s+w <= tw) {
				return s, w, true
			}
		}
	}
	if tw > 0 {
		return 0, tw, true
	}
	return 0, 0, false
}

func (fv *funcVerifier) flattenOr(e ast.Expr, out *[]ast.Expr) {
	e = ast.Unparen(e)
	if b, ok := e.(*ast.BinaryExpr); ok && b.Op == token.OR {
		fv.flattenOr(b.X, out)
		fv.flattenOr(b.Y, out)
		return
	}
	*out = append(*out, e)
}

func (fv *funcVerifier) uninterpBitop(st *State, name string, a, b smt.Term, t types.Type) smt.Term {
	fv.c.DeclareFun(name, []string{smt.Int, smt.Int}, smt.Int)
	r := fv.c.Let("bit", smt.App(smt.Int, name, a, b))
	fv.assume(st, fv.so.valid(r, t, st.frontier))
	nonneg := smt.And(smt.Ge(a, smt.IntLit(0)), smt.Ge(b, smt.IntLit(0)))
	switch name {
	case "bit_and":
		fv.assume(st, smt.Implies(nonneg, smt.And(smt.Ge(r, smt.IntLit(0)), smt.Le(r, a), smt.Le(r, b))))
	case "bit_or":
		fv.assume(st, smt.Implies(nonneg, smt.And(smt.Ge(r, a), smt.Ge(r, b), smt.Le(r, smt.Add(a, b)))))
	case "bit_xor":
		fv.assume(st, smt.Implies(nonneg, smt.And(smt.Ge(r, smt.IntLit(0)), smt.Le(r, smt.Add(a, b)))))
	case "bit_andnot":
		fv.assume(st, smt.Implies(nonneg, smt.And(smt.Ge(r, smt.IntLit(0)), smt.Le(r, a))))
	}
	return r
}

func (fv *funcVerifier) evalBinary(st *State, x *ast.BinaryExpr) smt.Term {
	switch x.Op {
	case token.LAND, token.LOR:
		l := fv.evalExpr(st, x.X)
		guard := l
		if x.Op == token.LOR {
			guard = smt.Not(l)
		}
		before := fv.mut
		sr := st.clone()
		fv.restrict(sr, guard)
		r := fv.evalExpr(sr, x.Y)
		if fv.mut != before {
			so := st.clone()
			fv.restrict(so, smt.Not(guard))
			*st = *fv.merge(sr, so)
		}
		if x.Op == token.LAND {
			return fv.c.Let("and", smt.And(l, r))
		}
		return fv.c.Let("or", smt.Or(l, r))
	}
	lt, rt := fv.typeOf(x.X), fv.typeOf(x.Y)
	t := fv.typeOf(x)
	switch x.Op {
	case token.EQL, token.NEQ:
		l := fv.evalExpr(st, x.X)
		r := fv.evalExpr(st, x.Y)
		var eq smt.Term
		switch {
		case isNilType(rt):
			eq = fv.isNil(l, lt)
		case isNilType(lt):
			eq = fv.isNil(r, rt)
		default:
			// mixed interface / concrete comparison
			_, li := lt.Underlying().(*types.Interface)
			_, ri := rt.Underlying().(*types.Interface)
			if li && !ri {
				r = fv.coerce(st, r, rt, lt)
			} else if ri && !li {
				l = fv.coerce(st, l, lt, rt)
			} else if fv.so.sortOf(lt) != fv.so.sortOf(rt) {
				if fv.so.sortOf(lt) == "Real" {
					r = fv.coerce(st, r, rt, lt)
				} else {
					l = fv.coerce(st, l, lt, rt)
				}
			}
			eq = smt.Eq(l, r)
		}
		if x.Op == token.NEQ {
			return smt.Not(eq)
		}
		return eq
	case token.LSS, token.LEQ, token.GTR, token.GEQ:
		l := fv.evalExpr(st, x.X)
		r := fv.evalExpr(st, x.Y)
		if isString(lt) {
			fv.declareStrLt()
			switch x.Op {
			case token.LSS:
				return smt.App(smt.Bool, "str_lt", l, r)
			case token.GTR:
				return smt.App(smt.Bool, "str_lt", r, l)
			case token.LEQ:
				return smt.Not(smt.App(smt.Bool, "str_lt", r, l))
			default:
				return smt.Not(smt.App(smt.Bool, "str_lt", l, r))
			}
		}
		if isFloat(lt) || isFloat(rt) {
			l = fv.coerce(st, l, lt, types.Typ[types.Float64])
			r = fv.coerce(st, r, rt, types.Typ[types.Float64])
			op := map[token.Token]string{token.LSS: "<", token.LEQ: "<=", token.GTR: ">", token.GEQ: ">="}[x.Op]
			return smt.App(smt.Bool, op, l, r)
		}
		switch x.Op {
		case token.LSS:
			return smt.Lt(l, r)
		case token.LEQ:
			return smt.Le(l, r)
		case token.GTR:
			return smt.Gt(l, r)
		default:
			return smt.Ge(l, r)
		}
	}
	if isString(t) && x.Op == token.ADD {
		l := fv.evalExpr(st, x.X)
		r := fv.evalExpr(st, x.Y)
		return fv.strConcat(st, l, r)
	}
	if isFloat(t) {
		l := fv.coerce(st, fv.evalExpr(st, x.X), lt, t)
		r := fv.coerce(st, fv.evalExpr(st, x.Y), rt, t)
		switch x.Op {
		case token.ADD:
			return smt.App("Real", "+", l, r)
		case token.SUB:
			return smt.App("Real", "-", l, r)
		case token.MUL:
			return smt.App("Real", "*", l, r)
		case token.QUO:
			fv.note("floating point modelled as exact reals; division by zero yields an unconstrained value")
			return smt.App("Real", "/", l, r)
		}
		fv.unsupported("float op %s", x.Op)
	}
	if !isInteger(t) {
		fv.unsupported("binary %s on %s", x.Op, t)
	}
	// integer arithmetic
	if x.Op == token.OR {
		var parts []ast.Expr
		fv.flattenOr(x, &parts)
		type rng struct{ lo, hi int }
		var rs []rng
		disjoint := true
		for _, p := range parts {
			s, w, ok := fv.bitInfo(p)
			if !ok {
				disjoint = false
				break
			}
			for _, r := range rs {
				if s < r.hi && r.lo < s+w {
					disjoint = false
				}
			}
			rs = append(rs, rng{s, s + w})
		}
		if disjoint {
			sum := smt.IntLit(0)
			for _, p := range parts {
				sum = smt.Add(sum, fv.evalExpr(st, p))
			}
			return fv.c.Let("or", sum)
		}
	}
	l := fv.evalExpr(st, x.X)
	r := fv.evalExpr(st, x.Y)
	return fv.intBinop(st, x.Op, l, r, t, x, rt)
}

func (fv *funcVerifier) intBinop(st *State, op token.Token, l, r smt.Term, t types.Type, at ast.Expr, rt types.Type) smt.Term {
	switch op {
	case token.ADD:
		return fv.wrapNear(smt.Add(l, r), t)
	case token.SUB:
		return fv.wrapNear(smt.Sub(l, r), t)
	case token.MUL:
		return fv.wrap(smt.Mul(l, r), t)
	case token.QUO, token.REM:
		nz := smt.Ne(r, smt.IntLit(0))
		if fv.opt.NoPanic {
			fv.assert(st, "nopanic", "divzero:"+fv.exprStr(at), at.Pos(), nz)
		} else {
			fv.assume(st, nz)
		}
		// Go truncates toward zero; SMT div is euclidean.
		l = fv.c.Let("dl", l)
		r = fv.c.Let("dr", r)
		if lo, _, ok := intRange(t); ok && lo.Sign() == 0 {
			if op == token.QUO {
				return fv.c.Let("q", smt.Div(l, r))
			}
			return fv.c.Let("rem", smt.Mod(l, r))
		}
		absl := smt.Ite(smt.Ge(l, smt.IntLit(0)), l, smt.Neg(l))
		absr := smt.Ite(smt.Ge(r, smt.IntLit(0)), r, smt.Neg(r))
		q := smt.Div(absl, absr)
		sameSign := smt.Eq(smt.Ge(l, smt.IntLit(0)), smt.Ge(r, smt.IntLit(0)))
		tq := fv.c.Let("q", smt.Ite(sameSign, q, smt.Neg(q)))
		if op == token.QUO {
			return fv.wrap(tq, t)
		}
		return fv.c.Let("rem", smt.Sub(l, smt.Mul(tq, r)))
	case token.SHL:
		if k, ok := smt.IntVal(r); ok && k.Sign() >= 0 && k.Cmp(big.NewInt(200)) < 0 {
			return fv.wrap(smt.Mul(l, smt.BigLit(pow2(int(k.Int64())))), t)
		}
		return fv.varShift(st, "shl", l, r, t)
	case token.SHR:
		if k, ok := smt.IntVal(r); ok && k.Sign() >= 0 && k.Cmp(big.NewInt(200)) < 0 {
			return fv.c.Let("shr", smt.Div(l, smt.BigLit(pow2(int(k.Int64())))))
		}
		return fv.varShift(st, "shr", l, r, t)
	case token.AND:
		for _, pr := range [][2]smt.Term{{l, r}, {r, l}} {
			if k, ok := smt.IntVal(pr[1]); ok && k.Sign() >= 0 {
				k1 := new(big.Int).Add(k, big.NewInt(1))
				if k1.BitLen() > 0 && new(big.Int).And(k1, k).Sign() == 0 {
					// mask 2^n-1
					if lo, _, ok := intRange(t); ok && lo.Sign() == 0 {
						return fv.c.Let("mask", smt.Mod(pr[0], smt.BigLit(k1)))
					}
				}
			}
		}
		return fv.uninterpBitop(st, "bit_and", l, r, t)
	case token.OR:
		return fv.uninterpBitop(st, "bit_or", l, r, t)
	case token.XOR:
		return fv.uninterpBitop(st, "bit_xor", l, r, t)
	case token.AND_NOT:
		return fv.uninterpBitop(st, "bit_andnot", l, r, t)
	}
	fv.unsupported("integer op %s", op)
	return smt.Term{}
}

// varShift handles shifts by a non-constant amount via an ite chain for small
// amounts and an uninterpreted function beyond.
func (fv *funcVerifier) varShift(st *State, name string, l, r smt.Term, t types.Type) smt.Term {
	// Go panics on negative shift counts of signed type
	if fv.opt.NoPanic {
		fv.assert(st, "nopanic", "negshift", token.NoPos, smt.Ge(r, smt.IntLit(0)))
	}
	fn := "bit_" + name
	fv.c.DeclareFun(fn, []string{smt.Int, smt.Int}, smt.Int)
	res := smt.App(smt.Int, fn, l, r)
	bits := 64
	if b, ok := t.Underlying().(*types.Basic); ok {
		if bb, _ := intBits(b); bb > 0 {
			bits = bb
		}
	}
	out := res
	for k := bits; k >= 0; k-- {
		var v smt.Term
		if name == "shl" {
			v = smt.Mod(smt.Mul(l, smt.BigLit(pow2(k))), smt.BigLit(pow2(bits)))
			if lo, _, ok := intRange(t); ok && lo.Sign() < 0 {
				v = res // signed variable shl: uninterpreted, with the range facts added below
			}
			if k >= bits {
				v = smt.IntLit(0)
			}
		} else {
			v = smt.Div(l, smt.BigLit(pow2(k)))
		}
		out = smt.Ite(smt.Eq(r, smt.IntLit(int64(k))), v, out)
	}
	if name == "shr" {
		out = smt.Ite(smt.Gt(r, smt.IntLit(int64(bits))), smt.Ite(smt.Ge(l, smt.IntLit(0)), smt.IntLit(0), smt.IntLit(-1)), out)
	} else {
		out = smt.Ite(smt.Gt(r, smt.IntLit(int64(bits))), smt.IntLit(0), out)
	}
	v := fv.c.Let(name, out)
	fv.assume(st, fv.so.valid(v, t, st.frontier))
	if lo, _, ok := intRange(t); ok && lo.Sign() < 0 && name == "shl" {
		// signed l << r stays uninterpreted (an exact case split per shift count makes every query
		// of the function heavy); what is known without overflow: for 0 <= l < 2^(bits-1-t) and
		// 0 <= r <= t the result lies in [l, l*2^t]
		for _, t := range []int{8, 16, 24, 32, 40, 48, 56, 62} {
			if t >= bits-1 {
				continue
			}
			fv.assume(st, smt.Implies(smt.And(smt.Ge(l, smt.IntLit(0)), smt.Lt(l, smt.BigLit(pow2(bits-1-t))), smt.Ge(r, smt.IntLit(0)), smt.Le(r, smt.IntLit(int64(t)))),
				smt.And(smt.Ge(v, l), smt.Le(v, smt.Mul(l, smt.BigLit(pow2(t)))))))
		}
	}
	return v
}

func isNilType(t types.Type) bool {
	b, ok := t.(*types.Basic)
	return ok && b.Kind() == types.UntypedNil
}

func (fv *funcVerifier) isNil(v smt.Term, t types.Type) smt.Term {
	if _, ok := t.Underlying().(*types.Slice); ok {
		return smt.Eq(slArr(v), smt.IntLit(0))
	}
	return smt.Eq(v, smt.IntLit(0))
}

func (fv *funcVerifier) strConcat(st *State, l, r smt.Term) smt.Term {
	fv.declareStrCat()
	v := fv.c.Let("cat", smt.App(StrSort, "str_cat", l, r))
	fv.assume(st, smt.Eq(smt.App(smt.Int, "str_len", v), smt.Add(smt.App(smt.Int, "str_len", l), smt.App(smt.Int, "str_len", r))))
	return v
}

// declareStrCat declares concatenation with the one fact that relates it to slicing: the part of
// a + b after the first len(a) bytes is b.
func (fv *funcVerifier) declareStrCat() {
	if fv.c.Has("str_cat") {
		return
	}
	fv.c.DeclareFun("str_cat", []string{StrSort, StrSort}, StrSort)
	fv.c.DeclareFun("str_sub", []string{StrSort, smt.Int, smt.Int}, StrSort)
	a, b := smt.Term{S: "sc_a", Sort: StrSort}, smt.Term{S: "sc_b", Sort: StrSort}
	cat := smt.App(StrSort, "str_cat", a, b)
	ln := func(x smt.Term) smt.Term { return smt.App(smt.Int, "str_len", x) }
	fv.c.Axiom("str_cat_suffix", smt.Forall([]smt.Term{a, b},
		smt.And(smt.Eq(ln(cat), smt.Add(ln(a), ln(b))),
			smt.Eq(smt.App(StrSort, "str_sub", cat, ln(a), ln(cat)), b)), cat), "str_cat")
}

// declareStrLt declares the string order (Go's < on strings) with the facts that make it a
// strict total order: irreflexive, asymmetric, total. (Transitivity is not axiomatised.)
func (fv *funcVerifier) declareStrLt() {
	if fv.c.Has("str_lt") {
		return
	}
	fv.c.DeclareFun("str_lt", []string{StrSort, StrSort}, smt.Bool)
	a, b := smt.Term{S: "sl_a", Sort: StrSort}, smt.Term{S: "sl_b", Sort: StrSort}
	lt := smt.App(smt.Bool, "str_lt", a, b)
	gt := smt.App(smt.Bool, "str_lt", b, a)
	fv.c.Axiom("str_lt_total", smt.Forall([]smt.Term{a, b}, smt.And(
		smt.Not(smt.And(lt, gt)),
		smt.Or(smt.Eq(a, b), lt, gt),
		smt.Implies(smt.Eq(a, b), smt.Not(lt))), lt), "str_lt")
}
