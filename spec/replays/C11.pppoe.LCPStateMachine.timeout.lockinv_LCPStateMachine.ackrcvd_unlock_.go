package pppoe

import (
	"fmt"
	"testing"

	"go.uber.org/zap"
)

// Open, Up -> Configure-Request id=a sent; peer acks a -> Ack-Rcvd; restart timer
// fires -> Configure-Request id=b retransmitted; peer's own Configure-Request is
// acceptable -> we ack it. RFC 1661: TO+ in Ack-Rcvd goes back to Req-Sent, so the
// automaton must not be Opened before the peer acknowledged request b.
func TestReplayVC(t *testing.T) {
	var sent [][]byte
	lcp, err := NewLCPStateMachine(DefaultLCPConfig(), func(proto uint16, data []byte) {
		sent = append(sent, append([]byte(nil), data...))
	}, zap.NewNop())
	if err != nil {
		fmt.Println("REPLAY-SETUP-FAILED", err)
		return
	}
	lcp.Open()
	lcp.Up()
	first := sent[len(sent)-1] // our Configure-Request
	ack := append([]byte(nil), first...)
	ack[0] = LCPCodeConfigAck
	lcp.ReceivePacket(ack) // peer acknowledges request a
	lcp.timeout()          // restart timer expires: request b goes out
	lcp.stopTimer()
	latest := sent[len(sent)-1]
	// peer's Configure-Request: MRU 1492 + magic number (acceptable)
	req := []byte{LCPCodeConfigRequest, 9, 0, 14, LCPOptMRU, 4, 0x05, 0xd4, LCPOptMagicNumber, 6, 1, 2, 3, 4}
	lcp.ReceivePacket(req)
	lcp.stopTimer()
	if lcp.IsOpened() && latest[1] != first[1] {
		fmt.Printf("REPLAY-VIOLATED: LCP reports Opened although the peer acknowledged only request id %d; the most recent Configure-Request (id %d) was never acknowledged\n", first[1], latest[1])
		return
	}
	fmt.Println("REPLAY-OK")
}
