package pool

// Bounded stand-in for "a request entering at any node is served from exactly one node's pool" across
// the HTTP layer (trusted frames for the verifier): three nodes over loopback HTTP, every health
// vector in which at most one node is regarded as unhealthy by the two others (4 vectors), every
// entry node, 24 subscriber ids. After a subscriber has been requested through every entry node it
// must be held by exactly one node's local pool, namely the first node of the ranked list that the
// nodes regard as healthy, and every answer must name that node. A second scenario: the owner stops
// answering (connection refused) while still regarded as healthy -- the entry node must report the
// error and hold nothing for a subscriber it does not own.

import (
	"context"
	"fmt"
	"net/http"
	"net/http/httptest"
	"strings"
	"testing"
	"time"
)

func TestBoundedVC(t *testing.T) {
	ctx := context.Background()
	bad, cases := 0, 0
	report := func(format string, a ...any) {
		if bad < 5 {
			fmt.Printf("BOUNDED-VIOLATED "+format+"\n", a...)
		}
		bad++
	}
	type node struct {
		id  string
		p   *PeerPool
		srv *httptest.Server
	}
	build := func() []*node {
		var ns []*node
		var ids []string
		for i := 0; i < 3; i++ {
			mux := http.NewServeMux()
			srv := httptest.NewServer(mux)
			n := &node{id: strings.TrimPrefix(srv.URL, "http://"), srv: srv}
			ns = append(ns, n)
			ids = append(ids, n.id)
			n.srv.Config.Handler = mux
		}
		for _, n := range ns {
			p, err := NewPeerPool(PeerPoolConfig{NodeID: n.id, Peers: append([]string{}, ids...), Network: "10.40.0.0/24", Gateway: "10.40.0.1", LeaseTime: time.Hour})
			if err != nil {
				panic(err)
			}
			n.p = p
			p.RegisterHandlers(n.srv.Config.Handler.(*http.ServeMux))
		}
		return ns
	}
	holders := func(ns []*node, sub string) []string {
		var hs []string
		for _, n := range ns {
			n.p.localPool.mu.Lock()
			_, ok := n.p.localPool.allocations[sub]
			n.p.localPool.mu.Unlock()
			if ok {
				hs = append(hs, n.id)
			}
		}
		return hs
	}
	// scenario 1: health vectors x entry nodes x subscribers
	for down := -1; down < 3; down++ {
		ns := build()
		if down >= 0 {
			for i, n := range ns {
				if i != down {
					n.p.healthMu.Lock()
					n.p.peerHealthMap[ns[down].id] = &peerHealth{healthy: false, consecutiveFailures: 3}
					n.p.healthMu.Unlock()
				}
			}
		}
		for s := 0; s < 24; s++ {
			sub := fmt.Sprintf("line-%d/%d", down, s)
			// the expected owner: first node of the ranked list that is not the one regarded as down
			ranked := rendezvousRanked(sub, ns[0].p.peerNodes)
			want := ""
			for _, r := range ranked {
				if down < 0 || r != ns[down].id {
					want = r
					break
				}
			}
			for ei, entry := range ns {
				if ei == down {
					continue // the node regarded as down does not see itself as down; its own view is another vector
				}
				cases++
				resp, err := entry.p.Allocate(ctx, sub, nil)
				if err != nil || resp == nil {
					report("health vector down=%d: Allocate(%q) entering at node %d: %v", down, sub, ei, err)
					continue
				}
				if resp.NodeID != want {
					report("health vector down=%d: %q entering at node %d was served by %s, the first healthy node of the ranking is %s", down, sub, ei, resp.NodeID, want)
				}
			}
			if hs := holders(ns, sub); len(hs) != 1 || hs[0] != want {
				report("health vector down=%d: subscriber %q is held by %v after entering at every node; want exactly [%s]", down, sub, hs, want)
			}
		}
		for _, n := range ns {
			n.srv.Close()
		}
	}
	// scenario 2: the owner's listener is gone although it is still regarded as healthy
	{
		ns := build()
		ns[2].srv.Close()
		n := 0
		for s := 0; n < 8 && s < 400; s++ {
			sub := fmt.Sprintf("gone-%d", s)
			if ns[0].p.GetOwner(sub) != ns[2].id {
				continue
			}
			n++
			cases++
			resp, err := ns[0].p.Allocate(ctx, sub, nil)
			if err == nil {
				report("owner unreachable: Allocate(%q) at a non-owner returned %+v without error", sub, resp)
			}
			if hs := holders(ns[:2], sub); len(hs) != 0 {
				report("owner unreachable: subscriber %q, owned by the unreachable node, is now held by %v", sub, hs)
			}
		}
		ns[0].srv.Close()
		ns[1].srv.Close()
	}
	if bad != 0 {
		fmt.Printf("BOUNDED-VIOLATED %d deviations in total\n", bad)
		return
	}
	fmt.Printf("BOUNDED-OK %d requests: 3 nodes, 4 health vectors, every entry node, 24 subscribers each; owner unreachable: 8 subscribers\n", cases)
}
