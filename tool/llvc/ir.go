// Package llvc is the LLVM-IR front end of bngvc: it compiles the real
// /repo/bpf/*.c files with clang-14 on every run, parses the textual IR,
// executes it symbolically (bit-precise, loops fully unrolled with unwinding
// assertions, path merging) and emits one SMT query per proof obligation.
package llvc

import (
	"fmt"
	"strings"
)

// ---------------------------------------------------------------- types

type TypeKind int

const (
	TVoid TypeKind = iota
	TInt
	TPtr
	TArray
	TStruct
	TFunc
	TLabel
	TMeta
	TOpaque
)

// Type is an LLVM first-class (or function/void) type.
type Type struct {
	Kind   TypeKind
	Bits   int     // TInt
	Elem   *Type   // TPtr, TArray
	Len    int64   // TArray
	Fields []*Type // TStruct
	Packed bool    // TStruct
	Name   string  // named struct ("%struct.x"), "" for literal
	Ret    *Type   // TFunc
	Params []*Type // TFunc
	VarArg bool    // TFunc
	// named struct types are filled in after the whole module is read
	resolved bool
}

func (t *Type) String() string {
	switch t.Kind {
	case TVoid:
		return "void"
	case TInt:
		return fmt.Sprintf("i%d", t.Bits)
	case TPtr:
		return t.Elem.String() + "*"
	case TArray:
		return fmt.Sprintf("[%d x %s]", t.Len, t.Elem)
	case TStruct:
		if t.Name != "" {
			return t.Name
		}
		var fs []string
		for _, f := range t.Fields {
			fs = append(fs, f.String())
		}
		s := "{ " + strings.Join(fs, ", ") + " }"
		if t.Packed {
			s = "<" + s + ">"
		}
		return s
	case TFunc:
		var ps []string
		for _, p := range t.Params {
			ps = append(ps, p.String())
		}
		if t.VarArg {
			ps = append(ps, "...")
		}
		return t.Ret.String() + " (" + strings.Join(ps, ", ") + ")"
	case TLabel:
		return "label"
	case TMeta:
		return "metadata"
	case TOpaque:
		return "opaque"
	}
	return "?"
}

func (t *Type) IsInt() bool { return t.Kind == TInt }
func (t *Type) IsPtr() bool { return t.Kind == TPtr }

// ---------------------------------------------------------------- values

type ValueKind int

const (
	VLocal ValueKind = iota
	VGlobal
	VInt
	VNull
	VUndef // undef / poison
	VZero  // zeroinitializer
	VExpr  // constant expression
	VAggregate
	VString
	VMeta
)

// Value is an operand.
type Value struct {
	Kind  ValueKind
	Ty    *Type
	Name  string // VLocal/VGlobal (without sigil)
	Int   uint64 // VInt: two's complement bits (truncated to Ty.Bits by user)
	Expr  *ConstExpr
	Elems []*Value // VAggregate
	Str   []byte   // VString
}

type ConstExpr struct {
	Op    string // bitcast getelementptr inttoptr ptrtoint
	SrcTy *Type  // getelementptr: source element type
	Args  []*Value
	To    *Type
}

func (v *Value) String() string {
	switch v.Kind {
	case VLocal:
		return "%" + v.Name
	case VGlobal:
		return "@" + v.Name
	case VInt:
		return fmt.Sprintf("%d", int64(v.Int))
	case VNull:
		return "null"
	case VUndef:
		return "undef"
	case VZero:
		return "zeroinitializer"
	case VExpr:
		return v.Expr.Op + "(...)"
	}
	return "?"
}

// ---------------------------------------------------------------- module

type PhiIn struct {
	Val   *Value
	Block string
}

type SwitchCase struct {
	Val   uint64
	Block string
}

// Instr is one instruction.  Fields are used depending on Op.
type Instr struct {
	Op      string
	Res     string // result register name ("" if none)
	Ty      *Type  // result type (void for none); for store: stored type
	Args    []*Value
	Pred    string // icmp predicate, atomicrmw operation
	ElemTy  *Type  // alloca: allocated type; getelementptr: source element type; load: loaded type
	Callee  string // call: function name (direct calls only)
	In      []PhiIn
	Targets []string // br: [dest] or [then, else]; switch: [default]
	Cases   []SwitchCase
	Line    int
	Raw     string
	Ord     int // ordinal of the instruction within its block
}

type Block struct {
	Name   string
	Instrs []*Instr
	Index  int
}

type Param struct {
	Name string
	Ty   *Type
}

type Function struct {
	Name    string
	Ret     *Type
	Params  []Param
	VarArg  bool
	Section string
	Blocks  []*Block
	BlockBy map[string]*Block
	Decl    bool // declaration only
	Line    int
	cfg     *cfgInfo
}

type Global struct {
	Name     string
	Ty       *Type
	Init     *Value // nil for external
	Const    bool
	Section  string
	Internal bool
}

// MapInfo describes a BPF map definition global (section ".maps").
type MapInfo struct {
	Name      string
	KeySize   int64 // -1 if the map has no key/value type members
	ValueSize int64
}

// Module is a parsed LLVM module plus facts recovered from the C source.
type Module struct {
	CFile      string // absolute path of the C source
	Base       string // file name without directory/extension
	DataLayout string
	Triple     string
	Types      map[string]*Type
	Globals    map[string]*Global
	GlobalList []*Global
	Funcs      map[string]*Function
	FuncList   []*Function
	Maps       map[string]*MapInfo
	// offsets of the packet pointer fields of the context structs, from a
	// clang probe of the uapi headers
	CtxOff map[string]int64 // e.g. "xdp_md.data" -> 0
	IRText string           // SSA-form IR text that was parsed (for evidence)
	IRSHA  string           // sha256 of IRText
	Cmds   []string         // compile commands that were run
}

// Functions lists the defined functions in module order.
func (m *Module) Functions() []*Function {
	var out []*Function
	for _, f := range m.FuncList {
		if !f.Decl {
			out = append(out, f)
		}
	}
	return out
}

// EntryPoints lists the defined functions that carry a program section
// attribute (xdp, tc/..., classifier ...).
func (m *Module) EntryPoints() []*Function {
	var out []*Function
	for _, f := range m.Functions() {
		if ProgTypeOfSection(f.Section) != "" {
			out = append(out, f)
		}
	}
	return out
}

// ProgTypeOfSection maps an ELF section name to "xdp", "tc" or "".
func ProgTypeOfSection(sec string) string {
	switch {
	case sec == "xdp" || strings.HasPrefix(sec, "xdp/") || strings.HasPrefix(sec, "xdp."):
		return "xdp"
	case sec == "tc" || strings.HasPrefix(sec, "tc/") || sec == "classifier" || strings.HasPrefix(sec, "classifier/") || sec == "action" || strings.HasPrefix(sec, "tcx/"):
		return "tc"
	}
	return ""
}
