package nexus

// Replay for obligation C20.nexus.VLANAllocator.LoadFromStore.loopinv.step[...v.rng]:
// tags outside the configured ranges are accepted from the store.

import (
	"context"
	"fmt"
	"testing"
)

func TestReplayVC(t *testing.T) {
	defer func() {
		if r := recover(); r != nil {
			fmt.Printf("REPLAY-PANIC: %v\n", r)
		}
	}()
	cfg := DefaultVLANConfig() // 100..4094 for both tags
	v := NewVLANAllocator(cfg)
	_ = v.LoadFromStore(context.Background(), []*NTE{{ID: "nte-a", STag: 5, CTag: 4095}})
	a, ok := v.Get("nte-a")
	if ok && (a.STag < cfg.STagRange.Start || a.STag > cfg.STagRange.End || a.CTag < cfg.CTagRange.Start || a.CTag > cfg.CTagRange.End) {
		fmt.Printf("REPLAY-VIOLATED: allocation (%d,%d) outside configured ranges S[%d,%d] C[%d,%d]\n", a.STag, a.CTag,
			cfg.STagRange.Start, cfg.STagRange.End, cfg.CTagRange.Start, cfg.CTagRange.End)
		return
	}
	fmt.Println("REPLAY-OK")
}
