package check

var httpForwardingBounded = BoundedCheck{ID: "pool.http_forwarding", Pkg: "github.com/codelaboratoryltd/bng/pkg/pool", File: "pool_http_forwarding.go",
	Bound: "two nodes over loopback HTTP; 12 identifier shapes (plain, MAC, slashes, space, %, ?, #, + and &, //, dot segments, trailing slash, UTF-8), 5 remotely owned subscribers each, two allocate / release rounds",
	Claim: "every allocation is served by the owner, every release succeeds, and afterwards the owner holds nothing and can hand all its addresses out again"}

func init() {
	register(&PropDef{
		ID:    "C17",
		Title: "All peers agree on who owns a subscriber",
		Pkgs:  []string{"./pkg/pool"},
		Funcs: []string{
			"pool.rendezvousHash", "pool.rendezvousRanked", "pool.PeerPool.GetOwner", "pool.PeerPool.IsLocalOwner",
			"pool.PeerPool.getHealthyOwner", "pool.PeerPool.AddPeer", "pool.PeerPool.RemovePeer", "pool.NewPeerPool",
			// "served from exactly one node's pool": the entry points decide once and serve or forward
			"pool.PeerPool.Allocate", "pool.PeerPool.Release", "pool.PeerPool.getPeerAddr",
		},
		// the HTTP layer between peers is a trusted frame for the verifier: bounded stand-in on the real code
		BoundedChecks: []BoundedCheck{httpForwardingBounded,
			{ID: "pool.score_ties", Pkg: "github.com/codelaboratoryltd/bng/pkg/pool", File: "pool_score_ties.go",
				Bound: "16 peers two of which collide under 64-bit FNV-1a (a real colliding pair), 1395 subscribers for which the two tie",
				Claim: "rendezvousHash and the head of rendezvousRanked name the same owner for every subscriber (the contracts assume distinct scores; this watches the tie case)"},
			{ID: "pool.three_nodes", Pkg: "github.com/codelaboratoryltd/bng/pkg/pool", File: "pool_three_nodes.go",
				Bound: "three nodes over loopback HTTP; the 4 health vectors with at most one node regarded as unhealthy by the others; every entry node; 24 subscribers each; plus 8 subscribers whose owner is unreachable but still regarded as healthy",
				Claim: "every answer names the first node of the ranking that is regarded as healthy, the subscriber is held by exactly that node's pool after entering at every node; with the owner unreachable the entry node reports the error and holds nothing"}},
		Undecided: []string{
			"hashString / hashCombine are trusted to be deterministic functions (ghost hstr, score); nothing about FNV-1a or the Wang mixer is decided",
			"ties: the contracts REQUIRE that distinct peer names have distinct scores and that scores are non-zero. The mixer is a bijection of keyHash^FNV1a(name), so scores tie exactly when two peer names collide under 64-bit FNV-1a; then rendezvousHash (first maximum, GetOwner/IsLocalOwner) and rendezvousRanked (sort.Slice, unstable; getHealthyOwner/Allocate/Release) name different owners (spec/replays/inspection_C17_score_tie_owner_disagreement.go, real colliding names). With all scores 0 rendezvousHash returns \"\"",
			"peer list maintenance, converse inclusions and order: that AddPeer / NewPeerPool add NOTHING BUT the new peer / the configured peers, that RemovePeer removes peerID and keeps every other member, and that peerNodes stays strictly sorted (duplicate-free) are not claimed: after append + sort.Strings, slices.Compact or the in-place shift append(s[:i], s[i+1:]...) the element terms have shifted indices (off + perm(i), off + i + 1) that quantifier triggers of the form off + ?a do not match, and the strict order needs transitivity of the uninterpreted string order (tried again on the current engine with the sort model on offset-relative indices and constants naming merged slice headers: AddPeer 'old members kept' and NewPeerPool 'every configured peer is a member' now discharge, the converse directions and sortedness still do not). Claimed instead: peerID / every old member IS a member after AddPeer (for NewPeerPool, which after fix_3 passes the list through slices.Compact as well, not even that direction discharges any more: only result/nodeID facts are claimed), lengths change by 0 or 1, RemovePeer only shrinks; behaviour confirmed by replays. NewPeerPool keeps duplicate entries of cfg.Peers and RemovePeer removes one occurrence only (finding F7; fix_3 de-duplicates with slices.Compact)",
			"'a request entering at any node is served from exactly one node's pool' is decided only as: getHealthyOwner returns exactly one node, the maximum among the peers the ENTRY node regards as usable; nodes with different health views can choose different owners for the same subscriber; Allocate / Release are under contract for 'exactly one of: served from the local pool (iff this node is the healthy owner) or forwarded once' and getPeerAddr for 'the address is the entry of exactly that node'; forwardAllocation / forwardRelease / handleAllocate / handleRelease (HTTP, JSON, URL escaping) are trusted frames",
			"concurrency: getHealthyOwner uses the peer slice after releasing p.mu while RemovePeer/AddPeer shift/sort the same backing array in place (by inspection); not decided",
			"the comparator closure of sort.Slice in rendezvousRanked is opaque to the engine: its effect is an assumed call-site contract (sorted by non-increasing score, permutation); a wrong comparator would not be noticed",
		},
		Assumptions: []string{
			"requires injective(): distinct names have distinct scores for every key; requires positive(): scores are non-zero (rendezvousHash/rendezvousRanked need only the member-restricted forms distinctScores / somePositive)",
			"monitor model: p.mu owns peerNodes (lock invariant: strictly sorted), p.healthMu owns peerHealthMap",
			"sort.Strings: sorted permutation (engine model); sort.Slice call site in rendezvousRanked: trusted instantiation of the library contract",
		},
		Explanation: "Ownership is characterised at the level of the SET of peers: topOf(nodes, kh, x) = x is a member with maximal score. rendezvousHash (loop invariant: first argmax so far) ensures topOf, first-argmax and uniqueness of the top under distinct scores; GetOwner lifts this to the peer list as of the lock acquisition. Three machine-checked lemmas (proved from the definitions alone, in GetOwner's context) give the glue: orderIndependent (two lists with the same members and distinct scores have the same top, hence any order/multiplicity of configuration or AddPeer yields the same owner), minimalDisruption (removing a peer keeps every other top), joinDisruption (adding a peer changes the top only to the new peer). rendezvousRanked ensures a permutation of nodes (same length, mutually inverse index maps) in non-increasing score order whose head is topOf, so ranked[0] is the owner. getHealthyOwner ensures the result is the unique maximum among the usable peers (self, peers without health record, healthy peers) or the local node if none; with minimalDisruption on the usable subset, marking a peer unhealthy changes the result only where that peer was the result.",
		Trusted: []string{
			"hashString, hashCombine: trusted contracts result == hstr(s) / score(keyHash, nodeName)",
			"callsite rendezvousRanked sort.Slice#1; sort.Strings model",
		},
	})
}
