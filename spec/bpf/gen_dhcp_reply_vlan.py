#!/usr/bin/env python3
# Generates dhcp_reply_vlan1.vspec / dhcp_reply_vlan2.vspec from dhcp_reply.vspec: the structural
# reply contracts for single-tagged (802.1Q) and double-tagged (802.1ad + 802.1Q) requests. Every frame
# offset >= 12 is shifted by the tag bytes; the value contracts that assume "found by client MAC"
# are dropped (a tagged request may be found through vlan_subscriber_pools first); two contracts are
# added: the tags are kept in the reply and the ethertype after them is IPv4.
import re, sys
base = open('/verif/spec/bpf/dhcp_reply.vspec').read()
def shift(text, s):
    def sh(n): 
        n = int(n); return str(n + s if n >= 12 else n)
    text = re.sub(r'\((pkt|out) (\d+)\)', lambda m: f'({m.group(1)} {sh(m.group(2))})', text)
    text = re.sub(r'\((pkt-be|out-be) (\d+) (\d+)\)', lambda m: f'({m.group(1)} {m.group(2)} {sh(m.group(3))})', text)
    text = text.replace('(bvsub outlen (bv 14 64))', f'(bvsub outlen (bv {14+s} 64))').replace('(bvsub outlen (bv 34 64))', f'(bvsub outlen (bv {34+s} 64))')
    return text
for name, s, cond, keep in [
    ('vlan1', 4, '(and (= (pkt-be 2 12) #x8100) (= (pkt-be 2 16) #x0800))', '(= (out-be 4 12) (pkt-be 4 12))'),
    ('vlan2', 8, '(and (= (pkt-be 2 12) #x88a8) (= (pkt-be 2 16) #x8100) (= (pkt-be 2 20) #x0800))', '(= (out-be 8 12) (pkt-be 8 12))'),
]:
    # split into top-level forms (comments dropped), shift each, drop the by-MAC value contracts
    text = '\n'.join(l.split(';')[0].rstrip() for l in base.split('\n'))
    forms, depth, cur = [], 0, ''
    for ch in text:
        if ch == '(':
            depth += 1
        if depth > 0:
            cur += ch
        if ch == ')':
            depth -= 1
            if depth == 0:
                forms.append(cur); cur = ''
    out = []
    for f in forms:
        if f.startswith('(define untagged_v4'):
            out.append(f'(define untagged_v4 {cond})   ; here: the tagged framing of this variant')
        elif f.startswith('(contract') and 'by_mac' in f:
            continue
        else:
            out.append(shift(f, s))
    hdr = [f'; C03 -- reply well-formedness for {"single" if s == 4 else "double"}-tagged requests (generated from dhcp_reply.vspec by',
           f'; gen_dhcp_reply_vlan.py: every frame offset >= 12 shifted by {s}, value contracts of the by-MAC lookup dropped).',
           f'; Pinned framing (programs.json): the tag ethertypes, IPv4, version 4 / ihl 5 at offset {14+s}.', '']
    out.append(f'(contract vlan_tags_kept_in_the_reply (=> req_ihl5 {keep}))')
    out.append(f'(contract ethertype_after_the_tags_is_ipv4 (=> req_ihl5 (= (out-be 2 {12+s}) #x0800)))')
    open(f'/verif/spec/bpf/dhcp_reply_{name}.vspec', 'w').write('\n'.join(hdr + out) + '\n')
