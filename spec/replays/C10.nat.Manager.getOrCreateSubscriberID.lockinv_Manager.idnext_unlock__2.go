package nat

// Replay for obligation C10.nat.Manager.getOrCreateSubscriberID.lockinv[Manager.idnext_unlock]#2.
// The uint32 subscriber id counter wraps after 4294967295 ids (ids are never released): the ids
// 0, 1, 2, ... are then handed out a second time, so two private addresses share a subscriber id
// in the NAT log. Reaching the wrap through the API needs 2^32-1 distinct private addresses (about
// 100 GB of id table), so this replay INJECTS the counter value; the verifier's counterexample has
// exactly this shape (nextSubscriberID == 4294967295). Practically unreachable; recorded as a bound.

import (
	"fmt"
	"testing"

	"go.uber.org/zap"
)

func TestReplayVC(t *testing.T) {
	defer func() {
		if r := recover(); r != nil {
			fmt.Printf("REPLAY-PANIC: %v\n", r)
		}
	}()
	m, _ := NewManager(ManagerConfig{Interface: "eth0"}, zap.NewNop())
	first := m.getOrCreateSubscriberID(0x0a000001) // id 1
	m.subscriberIDMu.Lock()
	m.nextSubscriberID = 4294967295 // state after 4294967293 further distinct addresses
	m.subscriberIDMu.Unlock()
	m.getOrCreateSubscriberID(0x0a000002)        // 4294967295, counter wraps to 0
	m.getOrCreateSubscriberID(0x0a000003)        // 0
	again := m.getOrCreateSubscriberID(0x0a000004) // 1 again
	if again == first {
		fmt.Printf("REPLAY-VIOLATED: (counter injected) private addresses 10.0.0.1 and 10.0.0.4 share subscriber id %d after the uint32 counter wrapped\n", again)
		return
	}
	fmt.Println("REPLAY-OK")
}
