package pppoe

import (
	"fmt"
	"net"
	"testing"
	"time"

	"go.uber.org/zap"
)

// Obligation: C11.pppoe.IPCPStateMachine.processConfigureOptions.loopinv.step[...#1]#2
// (no nak/reject entry ==> every IP-Address option of the request carries the assigned address)
//
// "IPCP acknowledges only the address assigned to the session": when no address is assigned
// (config.PeerIP == nil: none configured, no pool, or the pool is exhausted and Allocate returned
// nil) processConfigureOptions acknowledges whatever non-zero address the peer proposes and records
// it as the negotiated peer address.
func TestReplayVC(t *testing.T) {
	var sent [][]byte
	cfg := IPCPConfig{LocalIP: net.ParseIP("10.0.0.1"), MaxRetransmit: 10, RestartTimer: time.Hour} // no PeerIP, no pool
	ipcp := NewIPCPStateMachine(cfg, "s1", func(proto uint16, data []byte) {
		sent = append(sent, append([]byte(nil), data...))
	}, zap.NewNop())
	ipcp.Open()
	ipcp.Up()
	n0 := len(sent)
	// peer proposes an address of its own choosing
	ipcp.ReceivePacket([]byte{LCPCodeConfigRequest, 5, 0, 10, IPCPOptIPAddress, 6, 203, 0, 113, 77})
	ipcp.stopTimer()
	if len(sent) <= n0 {
		fmt.Println("REPLAY-SETUP-FAILED: no reply")
		return
	}
	reply := sent[n0]
	if reply[0] == LCPCodeConfigAck {
		fmt.Printf("REPLAY-VIOLATED: no address is assigned to the session (config.PeerIP=%v) but IPCP sent Configure-Ack (id %d) for peer-chosen address %v; negotiated peer address is now %v\n",
			cfg.PeerIP, reply[1], net.IP(reply[6:10]), ipcp.GetNegotiatedOptions().PeerIP)
		return
	}
	fmt.Println("REPLAY-OK")
}
