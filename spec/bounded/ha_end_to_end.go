package ha

// Bounded stand-in for "once the link is up and the active goes quiet, the standby holds exactly the
// active's sessions" end to end over loopback HTTP (full-sync GET + SSE stream, reconnects: layers the
// verifier does not model). An active and a standby syncer; three histories over 40 session ids (adds,
// updates, deletes; 200 / 300 / 300 changes), the second with all client connections cut twice in the
// middle, the third with a burst of 300 changes pushed without pause. After the active goes quiet
// the standby's table must equal the active's store (ids and the IP / State fields) within 10 s.

import (
	"fmt"
	"math/rand"
	"net/http"
	"net/http/httptest"
	"testing"
	"time"

	"go.uber.org/zap"
)

func TestBoundedVC(t *testing.T) {
	bad := 0
	for scenario := 0; scenario < 3; scenario++ {
		rng := rand.New(rand.NewSource(int64(1000 + scenario)))
		activeStore := NewInMemorySessionStore()
		acfg := DefaultSyncConfig()
		acfg.NodeID, acfg.Role = "active", RoleActive
		acfg.HeartbeatInterval = 200 * time.Millisecond
		active := NewHASyncer(acfg, activeStore, zap.NewNop())
		mux := http.NewServeMux()
		mux.HandleFunc("/ha/sessions", active.handleGetSessions)
		mux.HandleFunc("/ha/sessions/stream", active.handleSessionStream)
		mux.HandleFunc("/ha/health", active.handleHealth)
		ts := httptest.NewServer(mux)
		active.wg.Add(1)
		go active.broadcastLoop()

		scfg := DefaultSyncConfig()
		scfg.NodeID, scfg.Role = "standby", RoleStandby
		scfg.Partner = &PartnerInfo{NodeID: "active", Endpoint: ts.Listener.Addr().String()}
		scfg.ReconnectInterval = 50 * time.Millisecond
		scfg.FullSyncInterval = 0
		standby := NewHASyncer(scfg, NewInMemorySessionStore(), zap.NewNop())
		if err := standby.Start(); err != nil {
			fmt.Println("BOUNDED-SETUP-FAILED", err)
			return
		}
		time.Sleep(300 * time.Millisecond) // let the standby connect

		n := []int{200, 300, 300}[scenario]
		for i := 0; i < n; i++ {
			id := fmt.Sprintf("sess-%02d", rng.Intn(40))
			_, exists := activeStore.GetSession(id)
			switch {
			case !exists:
				st := &SessionState{SessionID: id, IP: fmt.Sprintf("10.3.%d.%d", rng.Intn(250), i%250), State: "active"}
				activeStore.PutSession(st)
				active.PushChange(SyncTypeAdd, st)
			case rng.Intn(3) == 0:
				activeStore.DeleteSession(id)
				active.PushChange(SyncTypeDelete, &SessionState{SessionID: id})
			default:
				st := &SessionState{SessionID: id, IP: fmt.Sprintf("10.4.%d.%d", rng.Intn(250), i%250), State: "renewed"}
				activeStore.PutSession(st)
				active.PushChange(SyncTypeUpdate, st)
			}
			if scenario == 1 && (i == n/3 || i == 2*n/3) {
				ts.CloseClientConnections()
			}
			if scenario != 2 {
				time.Sleep(time.Millisecond)
			}
		}
		// the active goes quiet: wait for convergence
		deadline := time.Now().Add(10 * time.Second)
		diff := ""
		for {
			diff = ""
			want := activeStore.GetAllSessions()
			got := standby.GetAllReceivedSessions()
			gm := map[string]*SessionState{}
			for _, s := range got {
				gm[s.SessionID] = s
			}
			if len(got) != len(want) {
				diff = fmt.Sprintf("standby holds %d sessions, active %d", len(got), len(want))
			}
			for _, w := range want {
				g, ok := gm[w.SessionID]
				if !ok {
					diff = fmt.Sprintf("session %s of the active is missing on the standby", w.SessionID)
				} else if g.IP != w.IP || g.State != w.State {
					diff = fmt.Sprintf("session %s: active has %s/%s, standby %s/%s", w.SessionID, w.IP, w.State, g.IP, g.State)
				}
			}
			if diff == "" || time.Now().After(deadline) {
				break
			}
			time.Sleep(100 * time.Millisecond)
		}
		if diff != "" {
			fmt.Printf("BOUNDED-VIOLATED scenario %d (%d changes%s): 10 s after the active went quiet: %s\n", scenario, n, []string{"", ", connections cut twice", ", pushed in one burst"}[scenario], diff)
			bad++
		}
		standby.Stop()
		active.cancel()
		ts.CloseClientConnections()
		ts.Close()
	}
	if bad != 0 {
		fmt.Printf("BOUNDED-VIOLATED %d scenarios did not converge\n", bad)
		return
	}
	fmt.Println("BOUNDED-OK 3 histories (200 / 300 with two connection cuts / 300 in one burst) over 40 session ids converge")
}
