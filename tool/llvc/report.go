package llvc

import (
	"fmt"
	"io"
	"sort"
	"strings"
	"time"

	"bngvc/smt"
)

// CheckOptions steer Check.
type CheckOptions struct {
	Replay bool   // replay every counterexample on the natively compiled C file
	Kinds  string // comma separated obligation kinds to solve ("" = all)
}

// Report is the result of verifying one entry point.
type Report struct {
	Result  *Result
	Solved  []Solved
	Replays map[string]*ReplayResult // by obligation id
	TimeS   float64
}

// Check = Verify + Solve (+ Replay of counterexamples).
func Check(mod *Module, fn string, opts Options, solver *smt.Solver, workers int, co CheckOptions) (*Report, error) {
	t0 := time.Now()
	res, err := Verify(mod, fn, opts)
	if err != nil {
		return nil, err
	}
	rep := &Report{Result: res, Replays: map[string]*ReplayResult{}}
	if res.Rejected == "" {
		obs := res.Obligations
		if co.Kinds != "" {
			want := map[string]bool{}
			for _, k := range strings.Split(co.Kinds, ",") {
				want[strings.TrimSpace(k)] = true
			}
			obs = nil
			for _, o := range res.Obligations {
				if want[o.Kind] {
					obs = append(obs, o)
				}
			}
		}
		rep.Solved = Solve(obs, solver, workers)
		if co.Replay {
			for i := range rep.Solved {
				s := &rep.Solved[i]
				if s.Status == "sat" && s.Model != nil && !s.O.Canary {
					rr, err := Replay(mod, res, s.O, s.Model)
					if err != nil {
						rr = &ReplayResult{Status: "error", Detail: err.Error()}
					}
					rep.Replays[s.O.ID] = rr
				}
			}
		}
	}
	rep.TimeS = time.Since(t0).Seconds()
	return rep, nil
}

// Counts returns obligations / discharged / failed / undecided per kind.
type KindCount struct {
	Total, Discharged, Trivial, Failed, Unknown int
}

func (r *Report) Counts() map[string]*KindCount {
	out := map[string]*KindCount{}
	for _, s := range r.Solved {
		k := out[s.O.Kind]
		if k == nil {
			k = &KindCount{}
			out[s.O.Kind] = k
		}
		k.Total++
		switch s.Status {
		case "unsat":
			k.Discharged++
			if s.O.Trivial {
				k.Trivial++
			}
		case "sat":
			k.Failed++
		default:
			k.Unknown++
		}
	}
	return out
}

// AllDischarged reports whether every obligation was proved.
func (r *Report) AllDischarged() bool {
	if r.Result.Rejected != "" {
		return false
	}
	for _, s := range r.Solved {
		if s.Status != "unsat" {
			return false
		}
	}
	return true
}

func (r *Report) Print(w io.Writer, verbose bool) {
	res := r.Result
	fmt.Fprintf(w, "== %s (%s, section type %s): symbolic execution %.2fs, %d instructions, %d regions\n", res.Func, res.File, res.ProgType, res.ExecTimeS, res.Steps, res.Regions)
	if res.Rejected != "" {
		fmt.Fprintf(w, "   OUT OF REACH (nothing proved): %s\n", res.Rejected)
		return
	}
	counts := r.Counts()
	var kinds []string
	for k := range counts {
		kinds = append(kinds, k)
	}
	sort.Strings(kinds)
	tot := KindCount{}
	for _, k := range kinds {
		c := counts[k]
		fmt.Fprintf(w, "   %-16s obligations %5d  discharged %5d (syntactic %d)  failed %d  undecided %d\n", k, c.Total, c.Discharged, c.Trivial, c.Failed, c.Unknown)
		tot.Total += c.Total
		tot.Discharged += c.Discharged
		tot.Failed += c.Failed
		tot.Unknown += c.Unknown
	}
	var maxT, sumT float64
	for _, s := range r.Solved {
		sumT += s.TimeS
		if s.TimeS > maxT {
			maxT = s.TimeS
		}
	}
	fmt.Fprintf(w, "   total obligations %d, discharged %d, failed %d, undecided %d; wall %.1fs, solver cpu %.1fs, slowest query %.2fs\n", tot.Total, tot.Discharged, tot.Failed, tot.Unknown, r.TimeS, sumT, maxT)
	for _, s := range r.Solved {
		if s.Status == "unsat" && !verbose {
			continue
		}
		fmt.Fprintf(w, "   %-8s %s  (%s %.2fs, %d bytes)\n", s.Status, s.O.ID, s.Solver, s.TimeS, s.QueryBytes)
		if s.Status != "unsat" {
			fmt.Fprintf(w, "            %s\n", s.O.Source)
		}
		if s.Status == "sat" {
			if s.Model != nil {
				fmt.Fprintf(w, "      model: %s\n", s.Model.Summary())
				if len(s.Model.Path) > 0 {
					p := s.Model.Path
					if len(p) > 40 && !verbose {
						p = append(append([]string{}, p[:15]...), append([]string{"..."}, p[len(p)-24:]...)...)
					}
					fmt.Fprintf(w, "      path: %s\n", strings.Join(p, " > "))
				}
				if len(s.Model.Extra) > 0 {
					fmt.Fprintf(w, "      values: %v\n", s.Model.Extra)
				}
			} else {
				fmt.Fprintf(w, "      model: %v\n", s.Values)
			}
			if rr := r.Replays[s.O.ID]; rr != nil {
				fmt.Fprintf(w, "      replay on native code: %s — %s\n", rr.Status, rr.Detail)
			}
		}
		if s.Status == "unknown" {
			fmt.Fprintf(w, "      solver outputs: %v\n", s.Outputs)
		}
	}
	if verbose {
		for _, n := range res.Notes {
			fmt.Fprintf(w, "   note: %s\n", n)
		}
	}
}

// JSON returns a machine-readable form of the report.
func (r *Report) JSON() map[string]interface{} {
	res := r.Result
	var helpers []string
	for h := range res.HelpersUsed {
		helpers = append(helpers, h)
	}
	sort.Strings(helpers)
	out := map[string]interface{}{
		"file": res.File, "function": res.Func, "prog_type": res.ProgType, "ir_sha256": res.IRSHA,
		"rejected": res.Rejected, "notes": res.Notes, "helpers_used": helpers, "spec": res.Spec,
		"exec_time_s": res.ExecTimeS, "time_s": r.TimeS, "all_discharged": r.AllDischarged(),
		"counts": r.Counts(),
	}
	var obs []map[string]interface{}
	for _, s := range r.Solved {
		o := map[string]interface{}{"id": s.O.ID, "kind": s.O.Kind, "desc": s.O.Desc, "source": s.O.Source,
			"status": s.Status, "solver": s.Solver, "time_s": s.TimeS, "query_bytes": s.QueryBytes}
		if s.Model != nil {
			o["model"] = s.Model
		}
		if rr := r.Replays[s.O.ID]; rr != nil {
			o["replay"] = rr
		}
		obs = append(obs, o)
	}
	out["obligations"] = obs
	return out
}
