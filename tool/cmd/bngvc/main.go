package main

import (
	"fmt"

	_ "golang.org/x/tools/go/packages"
)

func main() { fmt.Println("bngvc") }
