package nexus

// Replay for obligations C20.nexus.VLANAllocator.findAvailable.variant[#1] and
// loopinv.step[#1] (also findAvailableCTag#1): `for sTag := ...; sTag <= End; sTag++`
// with End == 65535 wraps the uint16 counter. (a) with a free S-TAG below Start
// the allocator returns a pair outside the range; (b) when every S-TAG is full
// Allocate never returns.

import (
	"fmt"
	"testing"
	"time"
)

func TestReplayVC(t *testing.T) {
	defer func() {
		if r := recover(); r != nil {
			fmt.Printf("REPLAY-PANIC: %v\n", r)
		}
	}()
	violated := false
	// (a) wrap hands out an out-of-range pair
	cfg := VLANAllocatorConfig{STagRange: VLANRange{Start: 65535, End: 65535}, CTagRange: VLANRange{Start: 1, End: 1}}
	v := NewVLANAllocator(cfg)
	v.Allocate("a")
	if b, err := v.Allocate("b"); err == nil && (b.STag < cfg.STagRange.Start || b.STag > cfg.STagRange.End) {
		fmt.Printf("REPLAY-VIOLATED: S-TAG range [65535,65535] exhausted, Allocate returned (%d,%d)\n", b.STag, b.CTag)
		violated = true
	}
	// same for the C-TAG loop
	cfg2 := VLANAllocatorConfig{STagRange: VLANRange{Start: 10, End: 10}, CTagRange: VLANRange{Start: 65535, End: 65535}}
	v2 := NewVLANAllocator(cfg2)
	v2.Allocate("a")
	if b, err := v2.Allocate("b"); err == nil && (b.CTag < cfg2.CTagRange.Start) {
		fmt.Printf("REPLAY-VIOLATED: C-TAG range [65535,65535] exhausted, Allocate returned (%d,%d)\n", b.STag, b.CTag)
		violated = true
	}
	// (b) non-termination: all 65536 S-TAGs full
	cfg3 := VLANAllocatorConfig{STagRange: VLANRange{Start: 0, End: 65535}, CTagRange: VLANRange{Start: 1, End: 1}}
	v3 := NewVLANAllocator(cfg3)
	for i := 0; i < 65536; i++ {
		if _, err := v3.Allocate(fmt.Sprintf("n%d", i)); err != nil {
			fmt.Printf("unexpected error at %d: %v\n", i, err)
			break
		}
	}
	done := make(chan error, 1)
	go func() { _, err := v3.Allocate("one-too-many"); done <- err }()
	select {
	case err := <-done:
		fmt.Printf("Allocate on a full pool returned: %v\n", err)
	case <-time.After(3 * time.Second):
		fmt.Println("REPLAY-VIOLATED: Allocate on a full pool with STagRange.End=65535 did not return within 3s (holds the allocator lock forever)")
		violated = true
	}
	if !violated {
		fmt.Println("REPLAY-OK")
	}
}
