package check

func init() {
	register(&PropDef{
		ID:    "C19",
		Title: "The per-subscriber token bucket admits exactly the configured rate",
		BPF: []BPFUnit{
			{"qos_ratelimit.c", "qos_egress_prog"}, {"qos_ratelimit.c", "qos_ingress_prog"},
		},
		// tb_contract: per-call contract of token_bucket_check at each inlined call
		// (/verif/spec/bpf/token_bucket.vspec); tb_two_packets: two consecutive calls on the
		// same bucket (/verif/spec/bpf/token_bucket_two_packets.vspec)
		BPFKinds: "tb_contract,tb_two_packets",
		Undecided: []string{
			"arithmetic lemmas of kind tb_arith_lemma (token_bucket_lemmas.vspec: the refill is exact for byte-multiple rates while nothing wraps; never above the exact value): 128-bit multiply/divide proofs that the solvers do not finish in the budget; not part of the claim",
			"two CPUs updating one bucket concurrently (the bucket is read-modify-written without atomics); the control-plane writer of struct token_bucket (pkg/qos) is not part of this BPF unit list",
			"clock going backwards relative to last_update (the arithmetic contracts assume now >= last_update; the behavioural contracts hold for the wrapped difference as the code computes it)",
		},
		Assumptions: []string{
			"bucket invariant tokens <= burst_bytes at call entry (shown to be preserved by every call)",
			"bpf_ktime_get_ns returns an arbitrary 64-bit value; two-packet model: the second call runs on the bucket bytes the first call left, nothing else writes the bucket in between, 1 Mbit/s..10 Gbit/s in whole bytes/s, 64..1514-byte packets, burst >= 1514, at most 1 s between last_update and the second packet",
		},
		Explanation: "token_bucket_check is inlined into both TC programs; at each inlined call the contract relates the 32 bucket bytes before and after the call, the packet length, the clock value read inside the call and the return value, all as 64-bit bit-vectors: rate 0 leaves the bucket untouched and admits; otherwise tokens' <= burst, the packet is admitted iff min(burst, tokens + refill) >= len and then exactly len tokens are taken (no wrap), a rejected packet leaves tokens' = min(burst, tokens + refill) < len, last_update' = now, and the configuration bytes are unchanged, where refill is the value the code computes. Against the mathematical value floor(elapsed_ns * rate_bps / 8 / 1e9), computed in 128 bits, two obligations state that the 64-bit product elapsed * (rate/8) does not wrap within one day at up to 100 Gbit/s and that the refill is exact. The two-packet obligation executes the callee a second time on the state the first call left and states that time for which no token was credited at the first packet (refill 0) is not lost: if the mathematical bucket holds enough for the second packet, the code admits it. Counterexamples are replayed by calling the real token_bucket_check natively on the model's bucket bytes and clock values.",
	})
}
