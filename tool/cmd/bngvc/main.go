package main

import (
	"flag"
	"fmt"
	"os"
	"runtime"
	"strings"
	"time"

	"bngvc/check"
	"bngvc/govc"
	"bngvc/smt"
)

func usage() {
	fmt.Fprintln(os.Stderr, `usage:
  bngvc check -property Cxx [-tier quick|thorough] [-repo /repo]
  bngvc sweep [-repo /repo] [-v] <pkgpattern> [func ...]     (debug: safety sweep of functions)
  bngvc func  [-repo /repo] [-v] <pkgpattern> <func ...>     (debug: verify functions against contracts)
  bngvc selftest
  bngvc list`)
	os.Exit(2)
}

// extraCmds lets other files of this package register sub-commands in init().
var extraCmds = map[string]func(args []string) int{}

func main() {
	if len(os.Args) < 2 {
		usage()
	}
	if f, ok := extraCmds[os.Args[1]]; ok {
		os.Exit(f(os.Args[2:]))
	}
	switch os.Args[1] {
	case "sweep", "func":
		debugCmd(os.Args[1], os.Args[2:])
	case "check":
		os.Exit(check.Main(os.Args[2:]))
	case "list":
		check.List()
	case "selftest":
		os.Exit(check.SelfTest(os.Args[2:]))
	case "replay":
		os.Exit(check.ReplayCmd(os.Args[2:]))
	default:
		usage()
	}
}

func debugCmd(mode string, args []string) {
	fs := flag.NewFlagSet(mode, flag.ExitOnError)
	repo := fs.String("repo", "/repo", "repository")
	verbose := fs.Bool("v", false, "verbose")
	dump := fs.String("dump", "", "dump queries of failing obligations into this dir")
	timeout := fs.Duration("timeout", 10*time.Second, "per-obligation timeout")
	fs.Parse(args)
	rest := fs.Args()
	if len(rest) < 1 {
		usage()
	}
	t0 := time.Now()
	prog, err := govc.Load(*repo, strings.Split(rest[0], ","))
	if err != nil {
		fmt.Fprintln(os.Stderr, err)
		os.Exit(2)
	}
	fmt.Printf("loaded in %.1fs, %d functions\n", time.Since(t0).Seconds(), len(prog.Funcs))
	var keys []string
	if len(rest) > 1 {
		for _, f := range rest[1:] {
			if _, ok := prog.Funcs[f]; !ok {
				fmt.Fprintf(os.Stderr, "no function %s\n", f)
				os.Exit(2)
			}
			keys = append(keys, f)
		}
	} else {
		keys = prog.SortedFuncKeys()
	}
	sv := smt.NewSolver(*timeout*3, "")
	sv.RLimit = 40_000_000
	sv.CandRLimit = 24_000_000
	runner := &check.Runner{Solver: sv, Workers: runtime.NumCPU()}
	opt := govc.Options{Property: "DBG", Canary: true}
	if mode == "sweep" {
		opt.Sweep, opt.NoPanic, opt.Variants = true, true, true
	} else {
		opt.AutoInv = true
	}
	for _, k := range keys {
		fo := runner.VerifyFunction(prog, prog.Funcs[k], opt)
		fmt.Println(fo.Summary())
		for _, r := range fo.Results {
			if r.O.Canary {
				if r.R.Status == "unsat" {
					fmt.Printf("    CANARY %s: exit proved unreachable (vacuous?)\n", r.O.ID)
					if *dump != "" {
						os.MkdirAll(*dump, 0o755)
						os.WriteFile(*dump+"/"+smt.Sanitize(r.O.ID)+".smt2", []byte(r.Query), 0o644)
					}
				}
				continue
			}
			if r.R.Status != "unsat" || *verbose {
				fmt.Printf("    %-7s %s  @%s  (%s %.2fs)\n", r.R.Status, r.O.ID, r.O.Pos, r.R.Solver, r.R.TimeS)
				if r.R.Status == "sat" && len(r.R.Values) > 0 {
					fmt.Printf("            model: %v\n", r.R.Values)
				}
				if r.R.Status == "unknown" {
					fmt.Printf("            outputs: %v\n", r.R.Outputs)
				}
				if *dump != "" && (r.R.Status != "unsat" || *verbose) {
					os.MkdirAll(*dump, 0o755)
					os.WriteFile(*dump+"/"+smt.Sanitize(r.O.ID)+".smt2", []byte(r.Query), 0o644)
				}
			}
		}
		if *verbose {
			for _, n := range fo.Notes {
				fmt.Println("    note:", n)
			}
			for _, d := range fo.Kept {
				fmt.Println("    kept:", d)
			}
			for _, d := range fo.Dropped {
				fmt.Println("    dropped:", d)
			}
		}
	}
	fmt.Printf("total %.1fs\n", time.Since(t0).Seconds())
}
