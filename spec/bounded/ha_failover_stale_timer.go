package ha

// Bounded stand-in for "a standby becomes active only if the partner was reported down continuously
// for the configured failover delay, and a recovery before that cancels the promotion" across timer
// firings (time.AfterFunc firing versus Timer.Stop is outside the contracts: Stop does not stop a
// callback that has already started, so a callback may obtain the lock arbitrarily late).
//
// Every sequence of partner-down / partner-up reports of length 1..6 is played on a real controller
// (FailoverDelay one hour, so real timers never fire during the run). After each report the arming
// of the failover timer is noted; at the end of the sequence the callback of EACH noted arming is run
// once, on its own replica of the history, exactly as the timer would run it (the call the closure
// makes, with the generation the closure captured). Oracle, from the property statement: the
// callback may promote only if no partner-up report followed the report that armed it (the partner
// has been down continuously since); and it must promote in that case (positive control -- the
// delay itself is the timer's business).

import (
	"fmt"
	"testing"
	"time"

	"go.uber.org/zap"
)

func TestBoundedVC(t *testing.T) {
	bad, cases, promoted := 0, 0, 0
	report := func(format string, a ...any) {
		if bad < 5 {
			fmt.Printf("BOUNDED-VIOLATED "+format+"\n", a...)
		}
		bad++
	}
	for n := 1; n <= 6; n++ {
		for bits := 0; bits < 1<<n; bits++ {
			seq := make([]bool, n) // true = partner-down
			name := ""
			for i := range seq {
				seq[i] = bits&(1<<i) != 0
				if seq[i] {
					name += "D"
				} else {
					name += "U"
				}
			}
			// the callback of the arming made (or still current) after report k, run at the end
			for k := 0; k < n; k++ {
				if !seq[k] {
					continue // a partner-up report arms nothing
				}
				c := staleTimerController()
				var gen uint64
				armed := false
				for i, down := range seq {
					typ := HealthEventPartnerUp
					if down {
						typ = HealthEventPartnerDown
					}
					c.handleHealthEvent(HealthEvent{Type: typ, Timestamp: time.Now()})
					if i == k {
						c.mu.RLock()
						gen, armed = c.failoverGen, c.state == FailoverStatePending
						c.mu.RUnlock()
					}
				}
				if !armed {
					c.Stop()
					continue
				}
				cases++
				upSince := false
				for i := k + 1; i < n; i++ {
					if !seq[i] {
						upSince = true
					}
				}
				c.executeFailover("partner health check failure", gen) // what the timer's closure does
				got := c.CurrentRole() == RoleActive
				if got {
					promoted++
				}
				if got && upSince {
					report("reports %s: the callback of the timer armed by report %d promoted the standby although a partner-up report followed it", name, k+1)
				}
				if !got && !upSince {
					report("reports %s: the callback of the timer armed by report %d did not promote although the partner stayed down", name, k+1)
				}
				c.Stop()
			}
		}
	}
	if bad > 0 {
		t.Fatalf("%d violations in %d cases", bad, cases)
	}
	if promoted == 0 {
		t.Fatalf("vacuous: no callback promoted in %d cases", cases)
	}
	fmt.Printf("BOUNDED-OK %d timer callbacks over all report sequences up to length 6, %d promoted\n", cases, promoted)
}

func staleTimerController() *FailoverController {
	cfg := DefaultFailoverConfig()
	cfg.FailoverDelay, cfg.GracePeriod, cfg.FailbackEnabled = time.Hour, 0, false
	hm := NewHealthMonitor(DefaultHealthConfig(), &PartnerInfo{NodeID: "a", Endpoint: "127.0.0.1:1"}, zap.NewNop())
	c := NewFailoverController(cfg, "b", RoleStandby, 1, hm, zap.NewNop())
	c.SetRoleChangeCallback(func(Role) error { return nil })
	return c
}
