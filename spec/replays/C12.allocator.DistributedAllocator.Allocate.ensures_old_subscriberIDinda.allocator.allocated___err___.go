package allocator

// Replay for the undischarged obligations
//   C12.allocator.DistributedAllocator.Allocate.ensures[old(subscriberID in da.allocator.allocated) && err != nil ==> dom(...) == old(dom(...)) ...]
//   C12.allocator.DistributedAllocator.Release.ensures[err != nil ==> dom(...) == old(dom(...)) ...]
// (1) Allocate is idempotent for a subscriber that already holds an address, but
//     when the store write of that idempotent call fails the rollback releases the
//     PRE-EXISTING allocation: the store still records alice -> X, the local
//     allocator has forgotten her, and the next subscriber is given X.
// (2) Release frees locally first; if the store delete fails the record stays in
//     the store, and a retry fails locally with ErrNotAllocated before the delete
//     is attempted again, so the stale record survives a restart.

import (
	"context"
	"errors"
	"fmt"
	"strings"
	"sync"
	"testing"
)

type flakyStore struct {
	mu      sync.Mutex
	data    map[string][]byte
	failPut bool
	failDel bool
}

func (s *flakyStore) Get(ctx context.Context, key string) ([]byte, error) {
	s.mu.Lock()
	defer s.mu.Unlock()
	v, ok := s.data[key]
	if !ok {
		return nil, errors.New("not found")
	}
	return v, nil
}
func (s *flakyStore) Put(ctx context.Context, key string, value []byte) error {
	s.mu.Lock()
	defer s.mu.Unlock()
	if s.failPut {
		return errors.New("store unavailable")
	}
	s.data[key] = value
	return nil
}
func (s *flakyStore) Delete(ctx context.Context, key string) error {
	s.mu.Lock()
	defer s.mu.Unlock()
	if s.failDel {
		return errors.New("store unavailable")
	}
	delete(s.data, key)
	return nil
}
func (s *flakyStore) Query(ctx context.Context, prefix string) ([]KeyValue, error) {
	s.mu.Lock()
	defer s.mu.Unlock()
	var out []KeyValue
	for k, v := range s.data {
		if strings.HasPrefix(k, prefix) {
			out = append(out, KeyValue{Key: k, Value: v})
		}
	}
	return out, nil
}
func (s *flakyStore) Watch(prefix string, cb func(key string, value []byte, deleted bool)) {}

func TestReplayVC(t *testing.T) {
	ctx := context.Background()
	violated := false
	st := &flakyStore{data: map[string][]byte{}}
	cfg := DistributedConfig{PoolID: "p1", BaseNetwork: "10.0.0.0/24", PrefixLen: 32, Mode: PoolModeSession}
	da, err := NewDistributedAllocator(cfg, st)
	if err != nil {
		t.Fatal(err)
	}
	// (1)
	pa, err := da.Allocate(ctx, "alice")
	if err != nil {
		t.Fatal(err)
	}
	st.failPut = true
	_, err = da.Allocate(ctx, "alice") // idempotent re-allocate, store write fails
	st.failPut = false
	_, still := da.Get("alice")
	_, inStore := st.data["/allocation/p1/alice"]
	fmt.Printf("alice -> %v; idempotent Allocate with failing store: err=%v; local allocation still present=%v; store record present=%v\n", pa, err, still, inStore)
	pb, err := da.Allocate(ctx, "bob")
	if err != nil {
		t.Fatal(err)
	}
	fmt.Printf("bob -> %v\n", pb)
	if !still && inStore && pb.String() == pa.String() {
		fmt.Printf("REPLAY-VIOLATED: failed idempotent Allocate released alice's existing address %v (store still records it); it was then handed to bob\n", pa)
		violated = true
	}
	// (2)
	pc, _ := da.Allocate(ctx, "carol")
	st.failDel = true
	err1 := da.Release(ctx, "carol")
	st.failDel = false
	err2 := da.Release(ctx, "carol") // retry
	_, inStore = st.data["/allocation/p1/carol"]
	_, local := da.Get("carol")
	fmt.Printf("carol -> %v; Release with failing store: %v; retry: %v; local=%v store record=%v\n", pc, err1, err2, local, inStore)
	if !local && inStore {
		// restart: a fresh allocator loading the store resurrects carol
		da2, _ := NewDistributedAllocator(cfg, st)
		da2.loadAllocations(ctx)
		p2, ok := da2.Get("carol")
		fmt.Printf("REPLAY-VIOLATED: after a failed store delete carol is free locally but still recorded in the store; the retry cannot remove the record (%v); after restart carol -> %v (present=%v)\n", err2, p2, ok)
		violated = true
	}
	if !violated {
		fmt.Println("REPLAY-OK")
	}
}
