package pppoe

import (
	"fmt"
	"net"
	"testing"

	"go.uber.org/zap"
)

var _ = net.IPv4len
var _ = zap.NewNop

func replayGuard(f func()) {
	defer func() {
		if r := recover(); r != nil {
			fmt.Println("REPLAY-PANIC:", r)
		}
	}()
	f()
	fmt.Println("REPLAY-OK")
}

// Echo-Request carrying 2 data bytes (shorter than the 4-byte magic number) in Opened state.
func TestReplayVC(t *testing.T) {
	lcp, err := NewLCPStateMachine(LCPConfig{MagicNumber: 1, MRU: 1492}, func(uint16, []byte) {}, zap.NewNop())
	if err != nil {
		fmt.Println("REPLAY-SETUP-FAILED", err)
		return
	}
	lcp.state = LCPStateOpened
	replayGuard(func() {
		lcp.ReceivePacket([]byte{LCPCodeEchoRequest, 1, 0, 6, 0xaa, 0xbb})
	})
}
