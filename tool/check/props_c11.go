package check

func init() {
	of := func(typ string, names ...string) []string {
		var out []string
		for _, n := range names {
			out = append(out, "pppoe."+typ+"."+n)
		}
		return out
	}
	// functions every one of the three automata has
	common := []string{"Up", "Down", "Open", "Close", "closeInternal", "ReceivePacket", "receiveConfigureRequest", "receiveConfigureAck",
		"receiveConfigureNak", "receiveConfigureReject", "receiveTerminateRequest", "receiveTerminateAck", "sendConfigureRequest",
		"sendTerminateRequest", "sendTerminateAck", "timeout", "initializeRestartCount", "zeroRestartCount", "startTimer", "stopTimer",
		"setState", "processConfigureOptions", "IsOpened", "GetState", "GetNegotiatedOptions", "SetOnStateChange"}
	var funcs []string
	funcs = append(funcs, of("LCPStateMachine", common...)...)
	funcs = append(funcs, of("LCPStateMachine", "receiveCodeReject", "receiveProtocolReject", "receiveEchoRequest", "receiveEchoReply",
		"sendCodeReject", "SendEchoRequest", "SendProtocolReject", "storePeerOptions")...)
	funcs = append(funcs, of("IPCPStateMachine", common...)...)
	funcs = append(funcs, of("IPCPStateMachine", "SetPeerIP")...)
	funcs = append(funcs, of("IPV6CPStateMachine", common...)...)
	funcs = append(funcs, "pppoe.LCPPacket.Serialize", "pppoe.ParseLCPPacket", "pppoe.ParseLCPOptions", "pppoe.SerializeLCPOptions")
	register(&PropDef{
		ID:    "C11",
		Title: "PPP control protocols open only on mutual agreement and always terminate",
		Pkgs:  []string{"./pkg/pppoe"},
		Funcs: funcs,
		Trusted: []string{
			"functype {LCP,IPCP,IPV6CP}StateMachine.sendPacket / onStateChange: the callbacks modify no automaton state (assumed); sendPacket's contract records the first packet (code, identifier) sent by the current activation in ghost variables",
			"iface IPPoolAllocator.Allocate / Release: modify no automaton state (assumed)",
			"generateMagicNumber, generateInterfaceID: trusted frame (crypto/rand)",
			"time.AfterFunc returns a non-nil *time.Timer and has no effect on the caller's state at the call (library model)",
		},
		Undecided: []string{
			"'an acknowledgement repeats the request's options unchanged while a nak or reject lists only offending options': processConfigureOptions of LCP and IPv6CP is under a frame contract only; for IPCP only the IP-Address option is specified (an unacceptable address puts an entry on the nak/reject list, so the reply is not an Ack), the contents of the lists are not",
			"SetPeerIP while IPCP is Opened changes the assigned address after the peer's address was acknowledged: 'acknowledges only the assigned address' is decided at the time of the acknowledgement only",
			"timer-vs-packet races (a time.AfterFunc callback already running when stopTimer is called) and real elapsed time",
			"byte-level Serialize/Parse round trip of option lists",
		},
		Assumptions: []string{
			"monitor model for the mu of each automaton (state, config, negotiated, counters, identifiers and the ghost flags gA/gB/gT are owned by mu); timerMu owns restartTimer",
			"ghost flags are assigned only at function exits (ghost_exit clauses), so the proof does not depend on statement order inside bodies; gT is assigned by startTimer (true, together with restartTimer != nil) and stopTimer (false, restartTimer == nil) only",
			"timeout() is entered because the pending restart timer fired: that it re-arms the timer when it stays in a timer-driven state is a separate postcondition (exactly one Terminate-/Configure-Request was sent, which starts the timer), because the lock invariant alone would assume gT at its Lock",
		},
		Explanation: "For each of the three automata (LCP, IPCP, IPv6CP): ghost flags gA ('we acknowledged the peer's most recent Configure-Request') and gB ('the peer acknowledged our most recent Configure-Request') are ghost fields of the automaton, owned by its mutex. gB is cleared by sendConfigureRequest and set by receiveConfigureAck only for the matching identifier; gA is set by receiveConfigureRequest exactly when the first packet it sent was a Configure-Ack. The lock invariant state=Opened => gA&&gB, Ack-Rcvd => gB, Ack-Sent => gA is assumed at every Lock and asserted at every Unlock of every method, and IsOpened/GetState ensure it for what they report. Every event that must leave Opened (RCR, RCA/RCN/RCJ for the current id, RTR, RTA, Down, Close, code/protocol reject of LCP) has the postcondition state != Opened; Ack/Nak/Reject with a stale identifier change nothing; replies carry the request's identifier (first-sent ghost id == pkt.Identifier). Retransmission bounds: sendConfigureRequest/sendTerminateRequest decrement restartCount, timeout decrements it in the active states and leaves them when it is exhausted. Silent peer: the ghost flag gT ('a restart timer is pending', set by startTimer and cleared by stopTimer, tied to restartTimer != nil) satisfies the lock invariants termtimer (state in {Closing, Stopping} => gT) and cfgtimer (state in {Req-Sent, Ack-Rcvd, Ack-Sent} => gT), so no handler may stop the timer and stay in a state that only a timeout can leave; timeout itself either retransmits (which restarts the timer and decrements the counter) or leaves these states. The terminate phase is entered only by closeInternal with restartCount = MaxTerminate - 1 after the first Terminate-Request (MaxRetransmit for IPCP/IPv6CP) or by RTR in Opened with restartCount = 0, and no handler increases restartCount while the automaton stays in the phase, so at most MaxTerminate Terminate-Requests go to a silent peer. IPCP: receiveConfigureRequest sends a Configure-Ack only if processConfigureOptions returned empty nak and reject lists, which it does only if every IP-Address option of the request carries config.PeerIP, the address assigned to the session (and one is assigned).",
	})
}
