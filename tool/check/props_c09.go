package check

import "bngvc/govc"

func init() {
	register(&PropDef{
		ID:    "C09",
		Title: "No packet from the network can crash or hang the gateway",
		Pkgs:  []string{"./pkg/pppoe", "./pkg/dhcpv6", "./pkg/radius", "./pkg/ha", "./pkg/nat", "./pkg/ztp", "./pkg/dhcp"},
		Roots: []string{
			// PPPoE discovery/session frames and PPP control packets
			"pppoe.Server.handleDiscovery", "pppoe.Server.handleSession", "pppoe.ParsePPPoEHeader", "pppoe.ParseTags",
			"pppoe.ParseLCPPacket", "pppoe.ParseLCPOptions", "pppoe.ParsePADT", "pppoe.ParseEchoPacket", "pppoe.FindTag",
			"pppoe.LCPStateMachine.ReceivePacket", "pppoe.IPCPStateMachine.ReceivePacket", "pppoe.IPV6CPStateMachine.ReceivePacket",
			"pppoe.Authenticator.ReceivePacket", "pppoe.Authenticator.receivePAP", "pppoe.Authenticator.receiveCHAP",
			"pppoe.SessionKeepAlive.OnEchoReply",
			// DHCPv6 messages and nested options
			"dhcpv6.ParseMessage", "dhcpv6.ParseOptions", "dhcpv6.ParseDUID", "dhcpv6.ParseIANA", "dhcpv6.ParseIAPD",
			"dhcpv6.ParseIAAddress", "dhcpv6.ParseIAPrefix", "dhcpv6.Server.handleMessage",
			// RADIUS CoA / Disconnect datagrams
			"radius.CoAServer.receiveLoop", "radius.CoAServer.verifyRequestAuthenticator", "radius.parseAttributes",
			"radius.CoAServer.parseCoARequest", "radius.CoAServer.parseDisconnectRequest", "radius.CoAServer.sendResponse",
			"radius.CoAServer.handleCoARequest", "radius.CoAServer.handleDisconnectRequest",
			// HA sync
			"ha.DecodeSyncMessage", "ha.HASyncer.handleSSEData",
			// NAT ALG payloads
			"nat.ALGHandler.ProcessPacket", "nat.FTPALG.ProcessOutbound", "nat.FTPALG.ProcessInbound", "nat.SIPALG.ProcessOutbound", "nat.SIPALG.ProcessInbound",
			// ZTP vendor options, DHCPv4 relay options
			"ztp.parseVendorOptions", "ztp.extractNexusURL", "dhcp.parseOption82",
		},
		BaselineClaims: true,
		// the sweep claims safety obligations only; ensures/frame/invariant obligations of functional
		// contracts on the same functions belong to the properties that own those contracts
		Select: func(o *govc.Oblig) bool {
			switch o.Kind {
			case "nopanic", "variant", "requires", "canary":
				return true
			}
			return false
		},
		// receive loops run until shutdown by design; the property bounds the work per packet, not the listener
		ServiceLoops: []string{"radius.CoAServer.receiveLoop#1", "pppoe.Server.receiveLoop#1", "ha.HASyncer.readSSEStream#1"},
		Undecided: []string{
			"panics inside third-party decoders (insomniacslk/dhcp, encoding/json, regexp, layeh/radius) are assumed absent",
			"wall-clock completion time: only loop variants (iteration counts bounded by the input length) are proved, not elapsed time",
			"goroutine leaks and blocking on channels/sockets",
			"obligations listed under undecided_obligations_not_claimed need a caller-side contract (nil-ness of pointers, interface and callback fields established by constructors) and are not part of the claim",
		},
		Assumptions: []string{
			"function inputs are type-valid Go values (0 <= len <= cap, lengths below 2^40); byte contents, lengths and all integer arguments are otherwise unconstrained",
			"method receivers are non-nil (every static call site carries its own nil-receiver obligation)",
			"callees are replaced by their contracts; a callee without a contract havocs the whole heap and returns unconstrained values",
			"acquiring a mutex havocs the whole heap (monitor model) unless the type declares ownership",
		},
		Explanation: "Zero-annotation safety sweep: for every function reachable from the network-facing decoders and handlers, an index/slice-bound/nil-dereference/nil-map-write/division/make-size obligation is generated at every such operation and a variant obligation at every loop, under precondition 'inputs are type-valid'. Loop invariants are inferred Houdini-style from candidate templates and discharged like any other obligation. The claim is the set of obligations recorded in spec/C09.baseline.json, all of which must discharge on every run; a function all of whose obligations discharged is guarded as a whole (any failing obligation in it is reported).",
	})
}
