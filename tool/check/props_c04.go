package check

func init() {
	register(&PropDef{
		ID:    "C04",
		Title: "No PPPoE session gets IP service without successful authentication",
		Pkgs:  []string{"./pkg/pppoe"},
		Funcs: []string{
			"pppoe.Server.handleSession", "pppoe.Server.handlePADT", "pppoe.Server.handlePAP", "pppoe.Server.startIPCPNegotiation",
			"pppoe.Server.handleIPCP", "pppoe.Server.handleIPCPConfigRequest", "pppoe.Server.handleIPCPConfigAck", "pppoe.Server.handleIPPacket",
			"pppoe.Session.SetState", "pppoe.Session.GetState", "pppoe.Session.IsEstablished", "pppoe.Session.UpdateActivity",
			"pppoe.Session.NextLCPIdentifier", "pppoe.Session.AddBytesIn", "pppoe.Session.AddBytesOut",
			"pppoe.SessionManager.GetSession", "pppoe.SessionManager.RemoveSession",
			"pppoe.Server.sendPPPPacket", "pppoe.Server.sendDiscoveryPacket", "pppoe.IPPool.Allocate", "pppoe.IPPool.Release",
			"pppoe.PPPoEHeader.Serialize", "pppoe.zeroBytes", "pppoe.NewSession",
		},
		Trusted: []string{
			"radius.Client.Authenticate: trusted contract (network exchange): modifies nothing visible to pppoe, verdict = err == nil && result != nil && result.Accepted",
			"rawSocket.send (interface): assumed to modify no gateway state",
		},
		Undecided: []string{
			"the CHAP path and the Authenticator/state-machine based path in auth.go, ipcp.go (only the server.go handlers that handleSession dispatches to are under contract)",
			"handleLCP and its callees are under 'modifies *' (their effect on other sessions is not framed)",
			"fields protected by Session.mu (State, timestamps) may change at any lock acquisition (monitor model), so 'reported established' is decided at the SetState call sites (precondition), not as a global state invariant",
			"sequences across several frames are covered only through the per-call gate preconditions (induction over the history is the meta-argument)",
		},
		Assumptions: []string{
			"Session.Authenticated / ClientIP are written only by the functions under contract in pkg/pppoe (checked: every static call of SetState / startIPCPNegotiation / handleIPCP* in the package carries the gate precondition)",
		},
		Explanation: "The gate is expressed as preconditions of the granting operations: Session.SetState(IPCPNegotiation|Established), startIPCPNegotiation (assigns the client address) and the IPCP handlers (acknowledge IP-layer negotiation) all require session.Authenticated, checked at every call site; handlePAP's postcondition states that Authenticated can become true only from the RADIUS verdict (ghost variable set by Authenticate's contract) or when no RADIUS client is configured, and that the client address changes only for an authenticated session. MAC ownership: handleSession/handlePADT ensure that when the frame's source MAC differs from the looked-up session's ClientMAC, the session's Authenticated/ClientIP/BytesIn/Username are unchanged and no session is removed.",
	})
}
