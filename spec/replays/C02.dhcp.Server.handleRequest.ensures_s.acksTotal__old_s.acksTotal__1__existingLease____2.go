package dhcp

import (
	"fmt"
	"net"
	"testing"
	"time"

	"github.com/insomniacslk/dhcp/dhcpv4"
	"go.uber.org/zap"
)

func baseMsg(t *testing.T, typ dhcpv4.MessageType, mac string, reqIP net.IP, circuit string) *dhcpv4.DHCPv4 {
	t.Helper()
	hw, _ := net.ParseMAC(mac)
	mods := []dhcpv4.Modifier{dhcpv4.WithMessageType(typ), dhcpv4.WithHwAddr(hw)}
	if reqIP != nil {
		mods = append(mods, dhcpv4.WithOption(dhcpv4.OptRequestedIPAddress(reqIP)))
	}
	if circuit != "" {
		mods = append(mods, dhcpv4.WithGatewayIP(net.ParseIP("10.255.0.1")),
			dhcpv4.WithGeneric(dhcpv4.OptionRelayAgentInformation, append([]byte{1, byte(len(circuit))}, circuit...)))
	}
	m, err := dhcpv4.New(mods...)
	if err != nil {
		t.Fatal(err)
	}
	w, err := dhcpv4.FromBytes(m.ToBytes())
	if err != nil {
		t.Fatal(err)
	}
	return w
}

// A is bound on circuit C1, renews through circuit C2 (line re-homed), releases. B then appears on
// C1: the index entry of C1 must be gone, otherwise B is acknowledged A's old address without the
// pool being asked, and the pool hands the same address to C.
func TestReplayVC(t *testing.T) {
	logger := zap.NewNop()
	pm := NewPoolManager(nil, logger)
	p, _ := NewPool(PoolConfig{ID: 1, Name: "p", Network: "10.9.0.0/30", Gateway: "10.9.0.1", LeaseTime: time.Hour})
	pm.AddPool(p)
	s, _ := NewServer(ServerConfig{Interface: "eth0", ServerIP: net.ParseIP("10.9.0.1")}, nil, pm, logger)
	A, B, C := "02:00:00:00:00:0a", "02:00:00:00:00:0b", "02:00:00:00:00:0c"

	off, _ := s.handleDiscover(baseMsg(t, dhcpv4.MessageTypeDiscover, A, nil, "C1"))
	ip := off.YourIPAddr
	s.handleRequest(baseMsg(t, dhcpv4.MessageTypeRequest, A, ip, "C1")) // ACK, index[C1]
	s.handleRequest(baseMsg(t, dhcpv4.MessageTypeRequest, A, ip, "C2")) // renewal seen on another circuit: index[C2], index[C1] stays
	s.handleRelease(baseMsg(t, dhcpv4.MessageTypeRelease, A, nil, "C2")) // removes index[C2] only, address back in the pool
	off, _ = s.handleDiscover(baseMsg(t, dhcpv4.MessageTypeDiscover, B, nil, "C1")) // stale index[C1] -> offered A's old address, pool not involved
	ackB, _ := s.handleRequest(baseMsg(t, dhcpv4.MessageTypeRequest, B, off.YourIPAddr, "C1"))
	off, err := s.handleDiscover(baseMsg(t, dhcpv4.MessageTypeDiscover, C, nil, "")) // pool still has the address on its free list
	if err != nil {
		fmt.Println("REPLAY-OK (pool exhausted for C: B's address is accounted for)")
		return
	}
	ackC, _ := s.handleRequest(baseMsg(t, dhcpv4.MessageTypeRequest, C, off.YourIPAddr, ""))
	if ackB.MessageType() == dhcpv4.MessageTypeAck && ackC.MessageType() == dhcpv4.MessageTypeAck && ackB.YourIPAddr.Equal(ackC.YourIPAddr) {
		fmt.Printf("REPLAY-VIOLATED: B (via stale circuit-id index entry C1) and C (via the pool) both hold unexpired leases on %s\n", ackC.YourIPAddr)
		return
	}
	fmt.Println("REPLAY-OK")
}
