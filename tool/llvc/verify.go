package llvc

import (
	"fmt"
	"sort"
	"strings"
	"sync"
	"time"

	"bngvc/smt"
)

// MaxQueryBytes caps the text size of one SMT query; larger ones are reported
// as "toolimit" instead of being sent to a solver.
var MaxQueryBytes = 4 << 20

// Obligation is one proof obligation: under the path condition (and the
// earlier obligations on the path) the goal holds.
type Obligation struct {
	ID         string
	Kind       string // inbounds | unwind | verdict | pass_unmodified | divzero | unreachable | helperarg
	Func       string
	Desc       string
	Source     string // IR instruction / description
	Trivial    bool   // goal folded to true during symbolic execution (no solver needed)
	Iterations int    // unwind: number of iterations executed
	res        *Result
	pc, goal   smt.Term
	facts      *factNode
	values     []string
}

// Query returns the SMT-LIB text whose unsatisfiability proves the obligation.
func (o *Obligation) Query() string {
	o.res.mu.Lock()
	defer o.res.mu.Unlock()
	return o.res.ctx.Query(o.facts.list(), o.pc, o.goal, append([]string{o.res.pktLen0.S}, o.values...))
}

type blockProbe struct {
	name string
	pc   smt.Term
}

type callProbe struct {
	kind     string
	desc     string
	pc       smt.Term
	mapName  string
	key      smt.Term
	keySize  int
	found    smt.Term
	valSize  int
	valBytes []smt.Term
	ret      smt.Term
	aux      smt.Term
}

type probeSet struct {
	blocks []blockProbe
	calls  []callProbe
}

// Result of the symbolic execution of one entry point.
type Result struct {
	File        string
	Func        string
	ProgType    string
	Spec        *ProgSpec
	Obligations []*Obligation
	Notes       []string // abstractions that were applied
	Rejected    string   // non-empty: construct that puts the function out of reach (nothing is proved)
	HelpersUsed map[string]bool
	Regions     int
	Steps       int
	ExecTimeS   float64
	IRSHA       string

	mu         sync.Mutex
	ctx        *smt.Ctx
	pktLen0    smt.Term
	pkt0       smt.Term
	ctx0       smt.Term
	ctxSize    int
	ctxStruct  string
	ctxOff     map[string]int64
	probes     *probeSet
	topFrame   *frame
	retBlocks  []int
	retTerm    smt.Term
	finalLen   smt.Term
	finalPkt   smt.Term
	probeNames map[string]string
}

// Verify executes entry point funcName of mod symbolically and returns its
// proof obligations.  A construct outside the supported subset yields a
// Result with Rejected set (and no obligations counted as proved).
func Verify(mod *Module, funcName string, opts Options) (*Result, error) {
	f, ok := mod.Funcs[funcName]
	if !ok || f.Decl {
		return nil, fmt.Errorf("no function %s defined in %s", funcName, mod.CFile)
	}
	pt := ProgTypeOfSection(f.Section)
	if pt == "" {
		return nil, fmt.Errorf("%s is not a program entry point (section %q); non-entry functions are verified inlined at their call sites", funcName, f.Section)
	}
	if opts.Property == "" {
		opts.Property = "LLVC"
	}
	if opts.MaxUnroll == 0 {
		opts.MaxUnroll = 512
	}
	if opts.MaxSteps == 0 {
		opts.MaxSteps = 4000000
	}
	spec := opts.Spec
	if spec == nil {
		spec = DefaultSpec(pt)
	}
	res := &Result{File: mod.CFile, Func: funcName, ProgType: pt, Spec: spec, HelpersUsed: map[string]bool{}, ctx: smt.NewCtx(), probes: &probeSet{}, probeNames: map[string]string{}, IRSHA: mod.IRSHA, ctxOff: mod.CtxOff}
	res.ctx.Logic = "QF_AUFBV"
	t0 := time.Now()
	e := &executor{mod: mod, ctx: res.ctx, opts: opts, res: res, fn: f, globalReg: map[string]*Region{}, mergeMemo: map[mergeKey]*Val{},
		siteOrd: map[*Instr]int{}, ids: map[string]int{}, mapVerMax: map[string]int{}, probes: res.probes, notes: map[string]bool{}}
	e.tm = &terms{ctx: res.ctx, addInfo: map[string]addRec{}}
	err := e.verifyEntry(f, pt, spec)
	res.ExecTimeS = time.Since(t0).Seconds()
	res.Regions = len(e.regions)
	res.Steps = e.steps
	if err != nil {
		if u, ok := err.(*unsupportedError); ok {
			res.Rejected = u.msg
			return res, nil
		}
		return nil, err
	}
	return res, nil
}

func (e *executor) verifyEntry(f *Function, pt string, spec *ProgSpec) error {
	if len(f.Params) != 1 || f.Params[0].Ty.Kind != TPtr || f.Params[0].Ty.Elem.Kind != TStruct {
		return unsupported("entry point %s does not take a single context pointer", f.Name)
	}
	switch f.Params[0].Ty.Elem.Name {
	case "%struct.xdp_md":
		e.ctxStruct = "xdp_md"
	case "%struct.__sk_buff":
		e.ctxStruct = "__sk_buff"
	default:
		return unsupported("unknown context type %s", f.Params[0].Ty.Elem.Name)
	}
	if (pt == "xdp") != (e.ctxStruct == "xdp_md") {
		return unsupported("section %q does not match context type %s", f.Section, e.ctxStruct)
	}
	if f.Ret.Kind != TInt || f.Ret.Bits != 32 {
		return unsupported("entry point does not return i32")
	}
	// fixed regions
	e.newRegion(rkNull, "null", 0)
	e.newRegion(rkInvalid, "invalid", 0)
	pkt := e.newRegion(rkPacket, "packet", 0)
	ctxSize := e.mod.CtxOff[e.ctxStruct+".sizeof"]
	if irSize, err := SizeOf(f.Params[0].Ty.Elem); err != nil || irSize != ctxSize {
		return unsupported("context struct size mismatch between IR (%d) and uapi header (%d)", irSize, ctxSize)
	}
	cr := e.newRegion(rkCtx, "ctx", ctxSize)
	if pkt.ID != ridPacket || cr.ID != ridCtx {
		panic("region numbering")
	}
	e.res.pkt0, e.res.ctx0, e.res.ctxSize, e.res.ctxStruct = pkt.init.Base, cr.init.Base, int(ctxSize), e.ctxStruct
	e.pktLen0 = e.ctx.Const("pkt_len0", smt.BV(64))
	e.ctx.Axiom("pkt_len0", e.tm.icmp("ule", e.pktLen0, lit(65535, 64)), "pkt_len0")
	e.res.pktLen0 = e.pktLen0
	// globals
	for _, g := range e.mod.GlobalList {
		if strings.HasPrefix(g.Name, "llvm.") {
			continue
		}
		if g.Section == ".maps" {
			r := e.newRegion(rkMapDef, g.Name, 0)
			r.Map = g.Name
			e.globalReg[g.Name] = r
			continue
		}
		sz, err := SizeOf(g.Ty)
		if err != nil {
			return unsupported("global @%s: %v", g.Name, err)
		}
		r := e.newRegion(rkGlobal, g.Name, sz)
		r.ReadOnly = g.Const
		if g.Const && g.Init != nil {
			bs, err := constBytes(g.Init, g.Ty)
			if err != nil {
				return unsupported("initializer of @%s: %v", g.Name, err)
			}
			for i, b := range bs {
				r.init.Ov[int64(i)] = Byte{V: constVal(uint64(b), 8)}
			}
		} else if !g.Const {
			e.note("mutable global @%s: contents treated as arbitrary", g.Name)
		}
		e.globalReg[g.Name] = r
	}
	st := &State{pc: smt.True, regs: map[string]*Val{}, mem: map[int]*RegMem{}, pktLen: e.pktLen0, mapVer: map[string]int{}, found: map[string]smt.Term{}}
	rv, out, err := e.execFunc(f, []*Val{e.ptrTo(cr, 0)}, st, "", true)
	if err != nil {
		return err
	}
	fr := e.res.topFrame
	fr.cur, fr.iters = nil, nil
	if out.pc.IsFalse() || rv == nil {
		e.note("no path reaches a return instruction")
		return nil
	}
	ret := e.ctx.Let("retval", rv.T)
	e.res.retTerm = ret
	e.res.finalLen = out.pktLen
	// verdict
	var alts []smt.Term
	for _, v := range spec.Verdicts {
		alts = append(alts, e.tm.icmp("eq", ret, lit(uint64(v), 32)))
	}
	if o := e.oblige(fr, out, "verdict", "ret", smt.Or(alts...), fmt.Sprintf("return value in %v", spec.Verdicts)); o != nil {
		o.values = []string{ret.S}
	}
	// pass_unmodified
	if !spec.NoPassUnmodified {
		final := e.flush(out.regMem(e, ridPacket)).Base
		e.res.finalPkt = final
		k := e.ctx.Const("pu_idx", smt.BV(64))
		acts, err := spec.actsTerm(out)
		if err != nil {
			return err
		}
		same := smt.And(e.tm.icmp("eq", out.pktLen, e.pktLen0),
			smt.Implies(e.tm.icmp("ult", k, e.pktLen0), smt.Eq(smt.Select(final, k), smt.Select(e.res.pkt0, k))))
		goal := smt.Implies(e.tm.icmp("eq", ret, lit(uint64(spec.Pass), 32)), smt.Or(acts, e.ctx.Let("pkt_unmodified", same)))
		leaves := e.retSources(fr)
		if len(leaves) == 0 {
			leaves = []retLeaf{{label: "ret", pc: smt.True}}
		}
		for _, lf := range leaves {
			ls := *out
			ls.pc = e.ctx.Let("pc", smt.And(out.pc, lf.pc))
			if o := e.oblige(fr, &ls, "pass_unmodified", "via "+lf.label, goal, fmt.Sprintf("ret == %d => packet bytes and length unchanged (or acts: %q)", spec.Pass, spec.Acts)); o != nil {
				o.values = []string{ret.S, k.S, smt.Select(final, k).S, smt.Select(e.res.pkt0, k).S, out.pktLen.S}
			}
		}
	}
	return nil
}

type retLeaf struct {
	label string
	pc    smt.Term
}

// retSources splits "the function returns" by the control-flow edges that
// feed the returned phi (expanded through forwarding blocks), so that
// pass_unmodified failures are reported per source-level return site.
func (e *executor) retSources(fr *frame) []retLeaf {
	f := fr.f
	var leaves []retLeaf
	seen := map[[2]int]bool{}
	phiIn := func(b *Block, reg string, from string) *Value {
		for _, in := range b.Instrs {
			if in.Op != "phi" {
				break
			}
			if in.Res == reg {
				for _, inc := range in.In {
					if inc.Block == from {
						return inc.Val
					}
				}
			}
		}
		return nil
	}
	var expand func(b *Block, reg string, depth int)
	expand = func(b *Block, reg string, depth int) {
		preds := append([]int(nil), f.cfg.pred[b.Index]...)
		sort.Ints(preds)
		for _, p := range preds {
			pc, ok := fr.edgePC[[2]int{p, b.Index}]
			if !ok {
				continue // edge never taken
			}
			pb := f.Blocks[p]
			if reg != "" && depth < 8 {
				if v := phiIn(b, reg, pb.Name); v != nil && v.Kind == VLocal {
					isPhiThere := false
					for _, in := range pb.Instrs {
						if in.Op == "phi" && in.Res == v.Name {
							isPhiThere = true
						}
					}
					if isPhiThere && f.cfg.loopOf[p] == nil {
						expand(pb, v.Name, depth+1)
						continue
					}
				}
			}
			key := [2]int{p, b.Index}
			if seen[key] {
				continue
			}
			seen[key] = true
			leaves = append(leaves, retLeaf{label: pb.Name + "->" + b.Name, pc: pc})
		}
	}
	rbs := map[int]bool{}
	for _, rb := range e.res.retBlocks {
		if rbs[rb] {
			continue
		}
		rbs[rb] = true
		b := f.Blocks[rb]
		t := b.Instrs[len(b.Instrs)-1]
		reg := ""
		if len(t.Args) > 0 && t.Args[0].Kind == VLocal {
			reg = t.Args[0].Name
		}
		if len(f.cfg.pred[rb]) == 0 {
			leaves = append(leaves, retLeaf{label: b.Name, pc: smt.True})
			continue
		}
		expand(b, reg, 0)
	}
	return leaves
}

// constBytes flattens a constant initializer.
func constBytes(v *Value, t *Type) ([]byte, error) {
	sz, err := SizeOf(t)
	if err != nil {
		return nil, err
	}
	out := make([]byte, sz)
	switch v.Kind {
	case VZero:
		return out, nil
	case VInt:
		for i := int64(0); i < sz; i++ {
			out[i] = byte(v.Int >> (8 * uint(i)))
		}
		return out, nil
	case VString:
		if int64(len(v.Str)) != sz {
			return nil, fmt.Errorf("string initializer length")
		}
		copy(out, v.Str)
		return out, nil
	case VAggregate:
		switch t.Kind {
		case TArray:
			es, _ := SizeOf(t.Elem)
			if int64(len(v.Elems)) != t.Len {
				return nil, fmt.Errorf("array initializer length")
			}
			for i, el := range v.Elems {
				b, err := constBytes(el, t.Elem)
				if err != nil {
					return nil, err
				}
				copy(out[int64(i)*es:], b)
			}
			return out, nil
		case TStruct:
			offs, _, err := structLayout(t)
			if err != nil {
				return nil, err
			}
			for i, el := range v.Elems {
				b, err := constBytes(el, t.Fields[i])
				if err != nil {
					return nil, err
				}
				copy(out[offs[i]:], b)
			}
			return out, nil
		}
	}
	return nil, fmt.Errorf("unsupported constant initializer")
}

// ---------------------------------------------------------------- solving

// Solved is the outcome of one obligation.
type Solved struct {
	O          *Obligation
	Status     string // unsat (proved) | sat (fails, see Model) | unknown | toolimit
	Solver     string
	TimeS      float64
	QueryBytes int
	Values     map[string]string
	Model      *Model // for sat
	Outputs    map[string]string
}

// Solve discharges obligations: queries are generated sequentially (the
// context memoises), solved in parallel by the solver portfolio.
func Solve(obligs []*Obligation, solver *smt.Solver, workers int) []Solved {
	if workers < 1 {
		workers = 1
	}
	out := make([]Solved, len(obligs))
	type job struct {
		i int
		q string
	}
	jobs := make(chan job, workers)
	var wg sync.WaitGroup
	for w := 0; w < workers; w++ {
		wg.Add(1)
		go func() {
			defer wg.Done()
			for j := range jobs {
				r := solver.Check(j.q)
				s := &out[j.i]
				s.Status, s.Solver, s.TimeS, s.Values, s.Outputs = r.Status, r.Solver, r.TimeS, r.Values, r.Outputs
				if r.Status == "sat" {
					s.Model = s.O.extractModel(solver)
				}
			}
		}()
	}
	for i, o := range obligs {
		out[i].O = o
		if o.Trivial {
			out[i].Status, out[i].Solver = "unsat", "syntactic"
			continue
		}
		q := o.Query()
		out[i].QueryBytes = len(q)
		if len(q) > MaxQueryBytes {
			out[i].Status, out[i].Solver = "toolimit", "none"
			continue
		}
		jobs <- job{i, q}
	}
	close(jobs)
	wg.Wait()
	return out
}
