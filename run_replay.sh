#!/bin/bash
# usage: run_replay.sh <spec/replays/X.go> <pkg dir relative to repo, e.g. pkg/dhcp> [repo]   -- runs a hand-written replay on the real code through go test -overlay
R=${3:-/repo}; S=$(mktemp -d /tmp/rr.XXXX)
cp $R/go.mod $R/go.sum $S/; cp "$1" $S/zz_replay_test.go
echo "{\"Replace\":{\"$R/$2/zz_replay_test.go\":\"$S/zz_replay_test.go\"}}" > $S/ov.json
(cd $R && GOFLAGS=-mod=mod GOPROXY=off go test -modfile=$S/go.mod -overlay $S/ov.json -vet=off -timeout 60s -count=1 -run '^TestReplayVC$' -v ./$2 2>&1 | grep -E "REPLAY|panic|FAIL|ok" | head -5)
rm -rf $S
