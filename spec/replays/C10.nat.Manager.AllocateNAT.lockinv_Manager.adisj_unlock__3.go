package nat

// Replay for obligation C10.nat.Manager.AllocateNAT.lockinv[Manager.adisj_unlock]#3 (known finding,
// needs a redesign of the block bookkeeping): the port block is derived from the current subscriber
// COUNT of the pool entry, so after a release from the middle the next allocation gets the block of
// a live subscriber.

import (
	"fmt"
	"net"
	"testing"

	"go.uber.org/zap"
)

func TestReplayVC(t *testing.T) {
	defer func() {
		if r := recover(); r != nil {
			fmt.Printf("REPLAY-PANIC: %v\n", r)
		}
	}()
	m, err := NewManager(ManagerConfig{Interface: "eth0", PortsPerSubscriber: 1024, PortRangeStart: 1024, PortRangeEnd: 65535}, zap.NewNop())
	if err != nil {
		fmt.Printf("unexpected: %v\n", err)
		return
	}
	m.AddPublicIP(net.ParseIP("203.0.113.1"))
	m.AllocateNAT(net.ParseIP("10.0.0.1"))
	m.AllocateNAT(net.ParseIP("10.0.0.2"))
	c, _ := m.AllocateNAT(net.ParseIP("10.0.0.3"))
	m.DeallocateNAT(net.ParseIP("10.0.0.1"))
	d, _ := m.AllocateNAT(net.ParseIP("10.0.0.4"))
	live := m.GetAllocation(net.ParseIP("10.0.0.3"))
	if live == c && d != nil && d.PublicIP.Equal(c.PublicIP) && d.PortStart <= c.PortEnd && c.PortStart <= d.PortEnd {
		fmt.Printf("REPLAY-VIOLATED: %s holds %s:%d-%d and %s was given %s:%d-%d (overlap on the same public address)\n",
			c.PrivateIP, c.PublicIP, c.PortStart, c.PortEnd, d.PrivateIP, d.PublicIP, d.PortStart, d.PortEnd)
		return
	}
	fmt.Println("REPLAY-OK")
}
