#!/bin/bash
# usage: seeded_run.sh <patch.diff> <prop> [<prop> ...]   -- applies the patch to a scratch copy of /repo HEAD and runs the checks on it
set -e
PATCH=$1; shift
D=$(mktemp -d /tmp/seedrepo.XXXX)
git -C /repo archive HEAD | tar -x -C $D
cp /repo/go.mod /repo/go.sum $D/ 2>/dev/null || true
(cd $D && git init -q && git apply --whitespace=nowarn $PATCH) || { echo "PATCH DOES NOT APPLY"; rm -rf $D; exit 3; }
for p in "$@"; do
  /verif/bin/bngvc-new check -repo $D -property $p 2>&1 | grep -E "^VIOLATION|^KNOWN|quick:" | sed "s#$D#<repo>#g" | cut -c1-260
done
rm -rf $D
