package pppoe

import (
	"fmt"
	"net"
	"testing"
)

// The receive loop passes handlers a slice of its reused frame buffer as the
// source MAC. If the session stores that slice, the next frame overwrites the
// recorded owner: a PADT from another host then passes the ownership check.
func TestReplayVC(t *testing.T) {
	buf := make([]byte, 64) // stands for receiveLoop's frame buffer
	copy(buf[6:12], []byte{2, 0, 0, 0, 0, 0x0a})
	sess, err := NewSession(7, net.HardwareAddr(buf[6:12]), net.HardwareAddr{2, 0, 0, 0, 0, 9})
	if err != nil {
		fmt.Println("REPLAY-SETUP-FAILED", err)
		return
	}
	owner := net.HardwareAddr{2, 0, 0, 0, 0, 0x0a}
	copy(buf[6:12], []byte{2, 0, 0, 0, 0, 0x0b}) // next frame arrives from another host
	if sess.ClientMAC.String() != owner.String() {
		fmt.Printf("REPLAY-VIOLATED: session owner recorded as %s changed to %s when the receive buffer was reused\n", owner, sess.ClientMAC)
		return
	}
	fmt.Println("REPLAY-OK")
}
