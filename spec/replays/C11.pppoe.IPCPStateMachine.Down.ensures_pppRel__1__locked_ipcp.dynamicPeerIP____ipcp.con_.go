package pppoe

import (
	"fmt"
	"net"
	"testing"

	"go.uber.org/zap"
)

// a pool that hands out the lowest free address and takes addresses back by session id
type replayPool struct {
	held map[string]net.IP
	free []net.IP
}

func (p *replayPool) Allocate(id string) net.IP {
	if ip, ok := p.held[id]; ok {
		return ip
	}
	if len(p.free) == 0 {
		return nil
	}
	ip := p.free[0]
	p.free = p.free[1:]
	p.held[id] = ip
	return ip
}

func (p *replayPool) Release(id string) {
	if ip, ok := p.held[id]; ok {
		delete(p.held, id)
		p.free = append([]net.IP{ip}, p.free...)
	}
}

// LCP goes down and up again under one IPCP automaton (renegotiation). Down returns the address to
// the pool; the pool gives it to another session; after Up the first automaton must not keep
// treating that address as its own ("IPCP acknowledges only the address assigned to the session").
func TestReplayVC(t *testing.T) {
	pool := &replayPool{held: map[string]net.IP{}, free: []net.IP{net.ParseIP("10.1.0.2").To4(), net.ParseIP("10.1.0.3").To4()}}
	cfg := DefaultIPCPConfig()
	cfg.PeerIP = nil
	cfg.IPPool = pool
	a := NewIPCPStateMachine(cfg, "s1", func(uint16, []byte) {}, zap.NewNop())
	a.Open()
	a.Up()
	first := a.config.PeerIP
	a.Down()
	other := pool.Allocate("s2") // the released address goes to another session
	a.Up()
	mine, inPool := pool.held["s1"]
	if a.config.PeerIP != nil && a.config.PeerIP.Equal(other) && (!inPool || !mine.Equal(a.config.PeerIP)) {
		fmt.Printf("REPLAY-VIOLATED: after Down/Up session s1 still negotiates %s (first assignment %s), which the pool has handed to s2 (%s); pool entry of s1: %v\n", a.config.PeerIP, first, other, mine)
		return
	}
	fmt.Println("REPLAY-OK")
}
