package llvc

import (
	"encoding/json"
	"flag"
	"fmt"
	"os"
	"path/filepath"
	"regexp"
	"sort"
	"strconv"
	"strings"
)

// Map layouts (C06): key and value layouts of every BPF map as clang lays
// them out, with member names.  -g0 IR has no member names, so the C file is
// compiled a second time with -g and the DWARF metadata (DICompositeType /
// DIDerivedType member: name, size, offset) is read; sizes are cross-checked
// against sizeof() from the Compile probe.

// LayoutField is one leaf member (nested structs are flattened with dotted
// names; arrays are one field with Count/ElemSize).
type LayoutField struct {
	Name     string `json:"name"`
	Offset   int64  `json:"offset"`              // bytes from the start of the key/value
	Size     int64  `json:"size"`                // bytes
	Type     string `json:"type"`                // C type name as clang prints it
	Count    int64  `json:"count,omitempty"`     // arrays: number of elements
	ElemSize int64  `json:"elem_size,omitempty"` // arrays: element size in bytes
	Union    bool   `json:"in_union,omitempty"`  // member of a union (overlaps its siblings)
	BitSize  int64  `json:"bit_size,omitempty"`  // bit-fields: width in bits
	BitOff   int64  `json:"bit_offset,omitempty"`
}

type LayoutType struct {
	Type    string        `json:"type"`
	Size    int64         `json:"size"`
	Packed  bool          `json:"has_no_padding"` // sum of leaf sizes == size (no padding holes)
	Fields  []LayoutField `json:"fields"`
	Padding []LayoutField `json:"padding,omitempty"` // holes between/after members
}

type MapLayout struct {
	File       string      `json:"file"` // C file whose compilation declared it (maps.h maps: the including file)
	MapType    int64       `json:"map_type"`
	MaxEntries int64       `json:"max_entries,omitempty"`
	MapFlags   int64       `json:"map_flags,omitempty"`
	KeySize    int64       `json:"key_size,omitempty"`   // maps declared with key_size/value_size instead of types
	ValueSize  int64       `json:"value_size,omitempty"` //
	Key        *LayoutType `json:"key,omitempty"`
	Value      *LayoutType `json:"value,omitempty"`
}

type diNode struct {
	kind  string            // DICompositeType, DIDerivedType, DIBasicType, DIGlobalVariable, DISubrange, tuple
	attrs map[string]string // key -> raw value
	elems []string          // tuple: element ids
}

var diLineRe = regexp.MustCompile(`^(![0-9]+) = (?:distinct )?(!?[A-Za-z]*)([({])(.*)[)}]\s*$`)

func splitTop(s string) []string {
	var out []string
	d, start := 0, 0
	inStr := false
	for i := 0; i < len(s); i++ {
		c := s[i]
		switch {
		case inStr:
			if c == '"' {
				inStr = false
			}
		case c == '"':
			inStr = true
		case c == '(' || c == '{':
			d++
		case c == ')' || c == '}':
			d--
		case c == ',' && d == 0:
			out = append(out, strings.TrimSpace(s[start:i]))
			start = i + 1
		}
	}
	if strings.TrimSpace(s[start:]) != "" {
		out = append(out, strings.TrimSpace(s[start:]))
	}
	return out
}

func parseDI(text string) map[string]*diNode {
	nodes := map[string]*diNode{}
	for _, ln := range strings.Split(text, "\n") {
		m := diLineRe.FindStringSubmatch(ln)
		if m == nil {
			continue
		}
		id, kind, open, body := m[1], m[2], m[3], m[4]
		n := &diNode{kind: strings.TrimPrefix(kind, "!"), attrs: map[string]string{}}
		if open == "{" {
			n.kind = "tuple"
			n.elems = splitTop(body)
		} else {
			for _, kv := range splitTop(body) {
				if i := strings.Index(kv, ":"); i > 0 {
					n.attrs[strings.TrimSpace(kv[:i])] = strings.TrimSpace(kv[i+1:])
				}
			}
		}
		nodes[id] = n
	}
	return nodes
}

type diCtx struct {
	nodes map[string]*diNode
}

func (c *diCtx) intAttr(n *diNode, k string) int64 {
	v, _ := strconv.ParseInt(n.attrs[k], 10, 64)
	return v
}

func unq(s string) string { return strings.Trim(s, `"`) }

// strip follows typedefs and cv-qualifiers; returns the node and a printable name.
func (c *diCtx) strip(id string) (*diNode, string) {
	name := ""
	for depth := 0; depth < 32; depth++ {
		n := c.nodes[id]
		if n == nil {
			return nil, name
		}
		if n.kind == "DIDerivedType" {
			switch n.attrs["tag"] {
			case "DW_TAG_typedef":
				if name == "" {
					name = unq(n.attrs["name"])
				}
				id = n.attrs["baseType"]
				continue
			case "DW_TAG_const_type", "DW_TAG_volatile_type", "DW_TAG_restrict_type":
				id = n.attrs["baseType"]
				continue
			}
		}
		if name == "" {
			name = c.typeName(n)
		}
		return n, name
	}
	return nil, name
}

func (c *diCtx) typeName(n *diNode) string {
	switch n.kind {
	case "DIBasicType":
		return unq(n.attrs["name"])
	case "DICompositeType":
		switch n.attrs["tag"] {
		case "DW_TAG_structure_type":
			if nm := unq(n.attrs["name"]); nm != "" {
				return "struct " + nm
			}
			return "struct"
		case "DW_TAG_union_type":
			if nm := unq(n.attrs["name"]); nm != "" {
				return "union " + nm
			}
			return "union"
		case "DW_TAG_array_type":
			_, en := c.strip(n.attrs["baseType"])
			return en + "[]"
		case "DW_TAG_enumeration_type":
			return "enum " + unq(n.attrs["name"])
		}
	case "DIDerivedType":
		if n.attrs["tag"] == "DW_TAG_pointer_type" {
			_, en := c.strip(n.attrs["baseType"])
			return en + " *"
		}
	}
	return "?"
}

func (c *diCtx) arrayCount(n *diNode) int64 {
	cnt := int64(1)
	if t := c.nodes[n.attrs["elements"]]; t != nil {
		for _, e := range t.elems {
			if sr := c.nodes[e]; sr != nil && sr.kind == "DISubrange" {
				v, err := strconv.ParseInt(sr.attrs["count"], 10, 64)
				if err == nil {
					cnt *= v
				}
			}
		}
	}
	return cnt
}

// flatten appends the leaf members of type id located at bit offset base.
func (c *diCtx) flatten(id string, prefix string, baseBits int64, inUnion bool, out *[]LayoutField) error {
	n, tname := c.strip(id)
	if n == nil {
		return fmt.Errorf("unresolved debug type %s", id)
	}
	size := c.intAttr(n, "size")
	if n.kind == "DICompositeType" && (n.attrs["tag"] == "DW_TAG_structure_type" || n.attrs["tag"] == "DW_TAG_union_type") {
		isU := n.attrs["tag"] == "DW_TAG_union_type"
		t := c.nodes[n.attrs["elements"]]
		if t == nil {
			return fmt.Errorf("%s without members", tname)
		}
		for _, e := range t.elems {
			mn := c.nodes[e]
			if mn == nil || mn.kind != "DIDerivedType" || mn.attrs["tag"] != "DW_TAG_member" {
				continue
			}
			name := unq(mn.attrs["name"])
			p := prefix
			if name != "" {
				if p != "" {
					p += "."
				}
				p += name
			}
			off := baseBits + c.intAttr(mn, "offset")
			if strings.Contains(mn.attrs["flags"], "DIFlagBitField") {
				_, bt := c.strip(mn.attrs["baseType"])
				bits := c.intAttr(mn, "size")
				*out = append(*out, LayoutField{Name: p, Offset: off / 8, Size: (off%8 + bits + 7) / 8, Type: bt, Union: inUnion || isU, BitSize: bits, BitOff: off % 8})
				continue
			}
			if err := c.flatten(mn.attrs["baseType"], p, off, inUnion || isU, out); err != nil {
				return err
			}
		}
		return nil
	}
	f := LayoutField{Name: prefix, Offset: baseBits / 8, Size: size / 8, Type: tname, Union: inUnion}
	if n.kind == "DICompositeType" && n.attrs["tag"] == "DW_TAG_array_type" {
		f.Count = c.arrayCount(n)
		if f.Count > 0 {
			f.ElemSize = f.Size / f.Count
		}
		_, en := c.strip(n.attrs["baseType"])
		f.Type = fmt.Sprintf("%s[%d]", en, f.Count)
	}
	if n.kind == "DIDerivedType" && n.attrs["tag"] == "DW_TAG_pointer_type" {
		f.Size = 8
	}
	*out = append(*out, f)
	return nil
}

func (c *diCtx) layoutOf(id string) (*LayoutType, error) {
	n, tname := c.strip(id)
	if n == nil {
		return nil, fmt.Errorf("unresolved debug type %s", id)
	}
	lt := &LayoutType{Type: tname, Size: c.intAttr(n, "size") / 8}
	if err := c.flatten(id, "", 0, false, &lt.Fields); err != nil {
		return nil, err
	}
	if len(lt.Fields) == 1 && lt.Fields[0].Name == "" {
		lt.Fields[0].Name = "(value)"
	}
	// padding holes (ignoring union overlap)
	cover := make([]bool, lt.Size)
	for _, f := range lt.Fields {
		for i := f.Offset; i < f.Offset+f.Size && i < lt.Size; i++ {
			cover[i] = true
		}
	}
	for i := int64(0); i < lt.Size; {
		if cover[i] {
			i++
			continue
		}
		j := i
		for j < lt.Size && !cover[j] {
			j++
		}
		lt.Padding = append(lt.Padding, LayoutField{Name: "(padding)", Offset: i, Size: j - i, Type: "padding"})
		i = j
	}
	lt.Packed = len(lt.Padding) == 0
	return lt, nil
}

// uintMember evaluates a __uint(name, N) member: pointer to int[N].
func (c *diCtx) uintMember(mn *diNode) (int64, bool) {
	n, _ := c.strip(mn.attrs["baseType"])
	if n == nil || n.kind != "DIDerivedType" || n.attrs["tag"] != "DW_TAG_pointer_type" {
		return 0, false
	}
	a, _ := c.strip(n.attrs["baseType"])
	if a == nil || a.kind != "DICompositeType" || a.attrs["tag"] != "DW_TAG_array_type" {
		return 0, false
	}
	// int[0] has a subrange with count 0 (or -1 for flexible); arrayCount handles plain counts
	return c.arrayCount(a), true
}

// MapLayouts compiles cFile with debug info and returns the layouts of the
// maps it declares.
func MapLayouts(cFile string) (map[string]*MapLayout, error) {
	mod, err := Compile(cFile)
	if err != nil {
		return nil, err
	}
	tmp, err := os.MkdirTemp("", "llvc-layouts-")
	if err != nil {
		return nil, err
	}
	defer os.RemoveAll(tmp)
	out := filepath.Join(tmp, "dbg.ll")
	argv := append([]string{ClangBin, "-O0", "-g", "-w"}, includeFlags(mod.CFile)...)
	argv = append(argv, "-S", "-emit-llvm", "-o", out, mod.CFile)
	if _, err := run(tmp, argv...); err != nil {
		return nil, fmt.Errorf("clang -g failed: %v", err)
	}
	txt, err := os.ReadFile(out)
	if err != nil {
		return nil, err
	}
	c := &diCtx{nodes: parseDI(string(txt))}
	res := map[string]*MapLayout{}
	for _, n := range c.nodes {
		if n.kind != "DIGlobalVariable" {
			continue
		}
		name := unq(n.attrs["name"])
		mi, ok := mod.Maps[name]
		if !ok {
			continue
		}
		st, _ := c.strip(n.attrs["type"])
		if st == nil || st.kind != "DICompositeType" {
			return nil, fmt.Errorf("map %s: definition type not found in debug info", name)
		}
		ml := &MapLayout{File: filepath.Base(mod.CFile)}
		t := c.nodes[st.attrs["elements"]]
		if t == nil {
			return nil, fmt.Errorf("map %s: no members", name)
		}
		for _, e := range t.elems {
			mn := c.nodes[e]
			if mn == nil || mn.attrs["tag"] != "DW_TAG_member" {
				continue
			}
			mname := unq(mn.attrs["name"])
			switch mname {
			case "key", "value":
				pn, _ := c.strip(mn.attrs["baseType"])
				if pn == nil || pn.attrs["tag"] != "DW_TAG_pointer_type" {
					return nil, fmt.Errorf("map %s: member %s is not a __type member", name, mname)
				}
				lt, err := c.layoutOf(pn.attrs["baseType"])
				if err != nil {
					return nil, fmt.Errorf("map %s %s: %v", name, mname, err)
				}
				if mname == "key" {
					ml.Key = lt
				} else {
					ml.Value = lt
				}
			default:
				v, ok := c.uintMember(mn)
				if !ok {
					return nil, fmt.Errorf("map %s: member %s is neither __uint nor key/value", name, mname)
				}
				switch mname {
				case "type":
					ml.MapType = v
				case "max_entries":
					ml.MaxEntries = v
				case "map_flags":
					ml.MapFlags = v
				case "key_size":
					ml.KeySize = v
				case "value_size":
					ml.ValueSize = v
				}
			}
		}
		if mi.KeySize >= 0 {
			if ml.Key == nil || ml.Value == nil {
				return nil, fmt.Errorf("map %s: key/value layout missing", name)
			}
			if ml.Key.Size != mi.KeySize || ml.Value.Size != mi.ValueSize {
				return nil, fmt.Errorf("map %s: debug-info sizes %d/%d disagree with sizeof %d/%d", name, ml.Key.Size, ml.Value.Size, mi.KeySize, mi.ValueSize)
			}
		}
		res[name] = ml
	}
	for name := range mod.Maps {
		if res[name] == nil {
			return nil, fmt.Errorf("map %s: no debug info found", name)
		}
	}
	return res, nil
}

// LayoutsFile is the default output of `bngvc llvc-layouts`.
var LayoutsFile = "/verif/spec/bpf/layouts.json"

// LayoutsMain implements `bngvc llvc-layouts [-repo /repo] [-o file]`: the
// layouts of all maps of bpf/*.c (maps.h through the files including it),
// regenerated from the C sources on every run.
func LayoutsMain(args []string) int {
	fs := flag.NewFlagSet("llvc-layouts", flag.ExitOnError)
	repo := fs.String("repo", "/repo", "repository")
	outPath := fs.String("o", LayoutsFile, "output file ('-' = stdout)")
	fs.Parse(args)
	RepoBPFDir = filepath.Join(*repo, "bpf")
	files, err := filepath.Glob(filepath.Join(RepoBPFDir, "*.c"))
	if err != nil || len(files) == 0 {
		fmt.Fprintln(os.Stderr, "llvc-layouts: no C files in", RepoBPFDir)
		return 2
	}
	sort.Strings(files)
	all := map[string]*MapLayout{}
	for _, f := range files {
		ls, err := MapLayouts(f)
		if err != nil {
			fmt.Fprintf(os.Stderr, "llvc-layouts: %s: %v\n", f, err)
			return 2
		}
		for name, l := range ls {
			key := name
			if old, ok := all[name]; ok {
				// the same name declared by two programs: keep both, qualified
				ob, _ := json.Marshal(old)
				nb, _ := json.Marshal(l)
				if string(ob) == string(nb) {
					continue
				}
				key = strings.TrimSuffix(l.File, ".c") + ":" + name
			}
			all[key] = l
		}
	}
	doc := map[string]interface{}{
		"_comment": "generated by `bngvc llvc-layouts` from bpf/*.c (clang-14 -g, x86_64 = BPF layout rules for these types): map name -> key/value layouts, offsets and sizes in bytes; do not edit",
		"maps":     all,
	}
	b, err := json.MarshalIndent(doc, "", " ")
	if err != nil {
		fmt.Fprintln(os.Stderr, "llvc-layouts:", err)
		return 2
	}
	b = append(b, '\n')
	if *outPath == "-" {
		os.Stdout.Write(b)
		return 0
	}
	if err := os.WriteFile(*outPath, b, 0o644); err != nil {
		fmt.Fprintln(os.Stderr, "llvc-layouts:", err)
		return 2
	}
	names := make([]string, 0, len(all))
	for n := range all {
		names = append(names, n)
	}
	sort.Strings(names)
	fmt.Printf("%d maps written to %s\n", len(all), *outPath)
	for _, n := range names {
		l := all[n]
		ks, vs := l.KeySize, l.ValueSize
		if l.Key != nil {
			ks, vs = l.Key.Size, l.Value.Size
		}
		fmt.Printf("  %-28s %-18s type %2d key %3d value %3d\n", n, l.File, l.MapType, ks, vs)
	}
	return 0
}
