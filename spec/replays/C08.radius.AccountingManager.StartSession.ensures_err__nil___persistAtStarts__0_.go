package radius

// Replay for the undischarged obligation
//   radius.AccountingManager.StartSession.ensures[err == nil ==> persistAtStarts == 0]
// StartSession sends the Accounting-Start first and writes the crash-recovery copy of the session
// (<persistPath>/sessions/<id>.json) afterwards. At the moment the server accepts the Start nothing
// about the session is on disk: a crash at that point leaves a session whose accounting was started
// and which recoverOrphanedSessions cannot find after the restart, so it never gets a Stop.
// The mock server looks at the persistence directory at the moment it receives the Start (= the
// state a crash at this transmit step would leave behind), then a fresh manager is started on that
// snapshot of the directory.

import (
	"fmt"
	"net"
	"os"
	"path/filepath"
	"sync/atomic"
	"testing"
	"time"

	"go.uber.org/zap"
	lradius "layeh.com/radius"
	"layeh.com/radius/rfc2866"
)

func TestReplayVC(t *testing.T) {
	secret := "s3cret"
	srvConn, err := net.ListenUDP("udp", &net.UDPAddr{IP: net.IPv4(127, 0, 0, 1), Port: 0})
	if err != nil {
		fmt.Println("REPLAY-SKIP: cannot open UDP socket:", err)
		return
	}
	defer srvConn.Close()
	port := srvConn.LocalAddr().(*net.UDPAddr).Port
	dir, _ := os.MkdirTemp("", "replay-c08")
	defer os.RemoveAll(dir)
	file := filepath.Join(dir, "sessions", "sess-1.json")
	var starts, stops, onDiskAtStart int32
	onDiskAtStart = -1
	go func() {
		buf := make([]byte, 4096)
		for {
			n, from, err := srvConn.ReadFromUDP(buf)
			if err != nil {
				return
			}
			p, err := lradius.Parse(buf[:n], []byte(secret))
			if err != nil {
				continue
			}
			switch rfc2866.AcctStatusType_Get(p) {
			case rfc2866.AcctStatusType_Value_Start:
				atomic.AddInt32(&starts, 1)
				if _, serr := os.Stat(file); serr == nil {
					atomic.StoreInt32(&onDiskAtStart, 1)
				} else {
					atomic.StoreInt32(&onDiskAtStart, 0)
				}
			case rfc2866.AcctStatusType_Value_Stop:
				atomic.AddInt32(&stops, 1)
			}
			b, _ := p.Response(lradius.CodeAccountingResponse).Encode()
			srvConn.WriteToUDP(b, from)
		}
	}()

	c, err := NewClient(ClientConfig{Servers: []ServerConfig{{Host: "127.0.0.1", Port: port - 1, Secret: secret}}, NASID: "bng1", Timeout: 2 * time.Second}, zap.NewNop())
	if err != nil {
		t.Fatal(err)
	}
	cfg := DefaultAccountingConfig()
	cfg.PersistPath = dir
	am, err := NewAccountingManager(c, cfg, zap.NewNop())
	if err != nil {
		t.Fatal(err)
	}
	if err := am.StartSession(&AccountingSession{SessionID: "sess-1", Username: "alice"}); err != nil {
		t.Fatal(err)
	}
	_, statErr := os.Stat(file)
	fmt.Printf("server accepted %d Start; persisted copy present when the Start was accepted: %d; present after StartSession returned: %v\n",
		atomic.LoadInt32(&starts), atomic.LoadInt32(&onDiskAtStart), statErr == nil)
	if atomic.LoadInt32(&starts) == 1 && atomic.LoadInt32(&onDiskAtStart) == 0 {
		// crash at that step: restart from the directory as it was then (no session file)
		crashDir, _ := os.MkdirTemp("", "replay-c08-crash")
		defer os.RemoveAll(crashDir)
		cfg2 := DefaultAccountingConfig()
		cfg2.PersistPath = crashDir
		am2, _ := NewAccountingManager(c, cfg2, zap.NewNop())
		am2.recoverOrphanedSessions()
		time.Sleep(100 * time.Millisecond)
		fmt.Printf("REPLAY-VIOLATED: Accounting-Start for sess-1 accepted by the server while no persisted copy existed; after a crash at that point the restarted manager sent %d Stop (session started, never stopped)\n", atomic.LoadInt32(&stops))
		return
	}
	fmt.Println("REPLAY-OK")
}
