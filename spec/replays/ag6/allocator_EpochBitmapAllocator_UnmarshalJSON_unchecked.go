package allocator

// Replay for allocator.EpochBitmapAllocator.UnmarshalJSON.lockinv[EpochBitmapAllocator.{nonnil,geom,fwd,rev,cnt,live}@unlock]
// (C01: reload). The restored snapshot is taken on trust: a document in which two subscribers
// carry the same index yields an allocator in which both hold the same address; a document
// without the tables yields an allocator that panics on the next Allocate.

import (
	"context"
	"encoding/json"
	"fmt"
	"testing"
)

func TestReplayVC(t *testing.T) {
	violated := false
	doc := `{"base_network":"10.0.0.0/29","prefix_length":32,"current_epoch":2,"grace_period":1,"generations":"qqo=","subscribers":{"alice":1,"bob":1},"ip_to_subscriber":{"1":"alice"}}`
	var a EpochBitmapAllocator
	if err := json.Unmarshal([]byte(doc), &a); err != nil {
		fmt.Printf("REPLAY-OK (document rejected: %v)\n", err)
	} else {
		ia, ib := a.Lookup("alice"), a.Lookup("bob")
		if ia != nil && ib != nil && ia.Equal(ib) {
			fmt.Printf("REPLAY-VIOLATED: after reload alice and bob both hold %v\n", ia)
			violated = true
		}
	}
	func() {
		defer func() {
			if r := recover(); r != nil {
				fmt.Printf("REPLAY-PANIC: Allocate after reloading a document without tables: %v\n", r)
				violated = true
			}
		}()
		var b EpochBitmapAllocator
		if err := json.Unmarshal([]byte(`{"base_network":"10.0.0.0/29","prefix_length":32,"current_epoch":2,"grace_period":1}`), &b); err != nil {
			return
		}
		b.Allocate(context.Background(), "carol")
	}()
	if !violated {
		fmt.Println("REPLAY-OK")
	}
}
