package llvc

import (
	"bytes"
	"context"
	"fmt"
	"os/exec"
	"sort"
	"strings"
	"time"

	"bngvc/smt"
)

// CallModel is one helper call that the counterexample path executes.
type CallModel struct {
	Helper string `json:"helper"`
	Site   string `json:"site"`
	Map    string `json:"map,omitempty"`
	Key    []byte `json:"key,omitempty"`
	Found  bool   `json:"found,omitempty"`
	Value  []byte `json:"value,omitempty"`
	Ret    uint64 `json:"ret,omitempty"`
	Aux    uint64 `json:"aux,omitempty"`
	Ghost  bool   `json:"ghost,omitempty"` // call of the hypothetical second execution (call2 specifications), not of the program run
}

// Model is a counterexample: an input frame, context fields, helper results
// and the path taken.
type Model struct {
	Len       int               `json:"frame_len"`
	Frame     []byte            `json:"frame"`
	Truncated bool              `json:"frame_truncated,omitempty"`
	Ctx       []byte            `json:"ctx_bytes"`
	Calls     []CallModel       `json:"helper_calls"`
	Path      []string          `json:"path"`
	Ret       int64             `json:"ret"`
	FinalLen  int               `json:"final_len"`
	Extra     map[string]string `json:"extra,omitempty"`
	Solver    string            `json:"solver"`
}

// parseBV parses #x.. / #b.. / (_ bvN W) values of any width into little
// endian bytes.
func parseBV(v string) ([]byte, bool) {
	v = strings.TrimSpace(v)
	switch {
	case strings.HasPrefix(v, "#x"):
		h := v[2:]
		if len(h)%2 == 1 {
			h = "0" + h
		}
		n := len(h) / 2
		out := make([]byte, n)
		for i := 0; i < n; i++ {
			var b byte
			for _, c := range h[2*i : 2*i+2] {
				b <<= 4
				switch {
				case c >= '0' && c <= '9':
					b |= byte(c - '0')
				case c >= 'a' && c <= 'f':
					b |= byte(c-'a') + 10
				case c >= 'A' && c <= 'F':
					b |= byte(c-'A') + 10
				default:
					return nil, false
				}
			}
			out[n-1-i] = b
		}
		return out, true
	case strings.HasPrefix(v, "#b"):
		bs := v[2:]
		n := (len(bs) + 7) / 8
		out := make([]byte, n)
		for i := 0; i < len(bs); i++ {
			if bs[len(bs)-1-i] == '1' {
				out[i/8] |= 1 << uint(i%8)
			}
		}
		return out, true
	case strings.HasPrefix(v, "(_ bv"):
		var val uint64
		var w int
		if _, err := fmt.Sscanf(v, "(_ bv%d %d)", &val, &w); err != nil {
			return nil, false
		}
		out := make([]byte, (w+7)/8)
		for i := range out {
			if i < 8 {
				out[i] = byte(val >> (8 * uint(i)))
			}
		}
		return out, true
	}
	return nil, false
}

func bvU64(v string) (uint64, bool) {
	b, ok := parseBV(v)
	if !ok {
		return 0, false
	}
	var x uint64
	for i := 0; i < len(b) && i < 8; i++ {
		x |= uint64(b[i]) << (8 * uint(i))
	}
	return x, true
}

// extractModel re-solves a failing obligation asking for everything a replay
// needs: frame, context bytes, helper call results along the path, path.
func (o *Obligation) extractModel(solver *smt.Solver) *Model {
	if o.raw != "" {
		r := modelSolve(o.raw, solver.Timeout)
		if r.Status != "sat" {
			return nil
		}
		return &Model{Solver: r.Solver, Extra: r.Values}
	}
	res := o.res
	frameCap := 2048
	small := smt.App(smt.Bool, "bvule", res.pktLen0, lit(1514, 64)) // prefer an Ethernet-sized frame
	for attempt := 0; attempt < 3; attempt++ {
		preferSmall := attempt == 0
		// every probed term gets a nullary define-fun name so that all
		// solvers echo it identically in (get-value ...)
		res.mu.Lock()
		var gv []string
		seen := map[string]bool{}
		nameOf := func(t smt.Term) string {
			if !strings.ContainsAny(t.S, " (") {
				return t.S
			}
			if n, ok := res.probeNames[t.S]; ok {
				return n
			}
			n := res.ctx.FreshName("prb")
			res.ctx.DefineFun(n, nil, t.Sort, t.S, false)
			res.probeNames[t.S] = n
			return n
		}
		add := func(t smt.Term) {
			if t.S == "" || t.S == "true" || t.S == "false" {
				return
			}
			if _, ok := bvConst(t); ok {
				return
			}
			n := nameOf(t)
			if !seen[n] {
				seen[n] = true
				gv = append(gv, n)
			}
		}
		add(res.pktLen0)
		add(res.retTerm)
		add(res.finalLen)
		if o.cex == nil {
			for _, v := range o.values {
				if !seen[v] {
					seen[v] = true
					gv = append(gv, v)
				}
			}
		}
		for _, pr := range o.probes {
			add(pr.T)
		}
		for _, b := range res.probes.blocks {
			add(b.pc)
		}
		for _, c := range res.probes.calls {
			add(c.pc)
			add(c.key)
			add(c.found)
			add(c.ret)
			add(c.aux)
			for _, vb := range c.valBytes {
				add(vb)
			}
		}
		for i := 0; i < frameCap; i++ {
			add(smt.Select(res.pkt0, lit(uint64(i), 64)))
		}
		for i := 0; i < res.ctxSize; i++ {
			add(smt.Select(res.ctx0, lit(uint64(i), 64)))
		}
		var q string
		as := o.facts.list()
		if preferSmall {
			as = append(as, small)
		}
		if o.cex != nil {
			q = res.ctx.SatQuery(as, smt.And(o.pc, *o.cex), gv)
		} else {
			q = res.ctx.Query(as, o.pc, o.goal, gv)
		}
		names := map[string]string{}
		for k, v := range res.probeNames {
			names[k] = v
		}
		res.mu.Unlock()
		r := modelSolve(q, solver.Timeout)
		if DebugModelQuery != nil {
			DebugModelQuery(q, r)
		}
		if r.Status != "sat" || r.Values == nil {
			if preferSmall {
				continue
			}
			return nil
		}
		val := func(t smt.Term) (string, bool) {
			if t.S == "" {
				return "", false
			}
			if t.S == "true" || t.S == "false" {
				return t.S, true
			}
			if _, ok := bvConst(t); ok {
				return t.S, true
			}
			if n, ok := names[t.S]; ok {
				v, ok := r.Values[n]
				return v, ok
			}
			v, ok := r.Values[t.S]
			return v, ok
		}
		m := &Model{Solver: r.Solver, Extra: map[string]string{}}
		if v, ok := val(res.pktLen0); ok {
			x, _ := bvU64(v)
			m.Len = int(x)
		}
		if m.Len > frameCap && attempt < 2 {
			frameCap = m.Len
			continue
		}
		n := m.Len
		if n > frameCap {
			n = frameCap
			m.Truncated = true
		}
		m.Frame = make([]byte, n)
		for i := 0; i < n; i++ {
			if v, ok := val(smt.Select(res.pkt0, lit(uint64(i), 64))); ok {
				if b, ok := parseBV(v); ok && len(b) > 0 {
					m.Frame[i] = b[0]
				}
			}
		}
		m.Ctx = make([]byte, res.ctxSize)
		for i := 0; i < res.ctxSize; i++ {
			if v, ok := val(smt.Select(res.ctx0, lit(uint64(i), 64))); ok {
				if b, ok := parseBV(v); ok && len(b) > 0 {
					m.Ctx[i] = b[0]
				}
			}
		}
		if v, ok := val(res.retTerm); ok {
			x, _ := bvU64(v)
			m.Ret = int64(int32(uint32(x)))
		}
		if v, ok := val(res.finalLen); ok {
			x, _ := bvU64(v)
			m.FinalLen = int(x)
		}
		for _, b := range res.probes.blocks {
			if v, ok := val(b.pc); (ok && v == "true") || b.pc.IsTrue() {
				m.Path = append(m.Path, b.name)
			}
		}
		for _, c := range res.probes.calls {
			if v, ok := val(c.pc); !((ok && v == "true") || c.pc.IsTrue()) {
				continue
			}
			cm := CallModel{Helper: c.kind, Site: c.desc, Map: c.mapName, Ghost: c.ghost}
			if v, ok := val(c.key); ok {
				if b, ok := parseBV(v); ok {
					for len(b) < c.keySize {
						b = append(b, 0)
					}
					cm.Key = b[:c.keySize]
				}
			}
			if v, ok := val(c.found); ok {
				cm.Found = v == "true"
			}
			if v, ok := val(c.ret); ok {
				cm.Ret, _ = bvU64(v)
			}
			if v, ok := val(c.aux); ok {
				cm.Aux, _ = bvU64(v)
			}
			if cm.Found && len(c.valBytes) > 0 {
				cm.Value = make([]byte, len(c.valBytes))
				for i, vb := range c.valBytes {
					if v, ok := val(vb); ok {
						if b, ok := parseBV(v); ok && len(b) > 0 {
							cm.Value[i] = b[0]
						}
					}
				}
			}
			m.Calls = append(m.Calls, cm)
		}
		for _, pr := range o.probes {
			if v, ok := val(pr.T); ok {
				m.Extra[pr.Name] = v
			}
		}
		keys := make([]string, 0, len(o.values))
		for _, k := range o.values {
			keys = append(keys, k)
		}
		sort.Strings(keys)
		for _, k := range keys {
			if v, ok := r.Values[k]; ok {
				m.Extra[k] = v
			}
		}
		return m
	}
	return nil
}

// Summary renders the model compactly for terminal output.
func (m *Model) Summary() string {
	var b strings.Builder
	fmt.Fprintf(&b, "frame_len=%d ret=%d final_len=%d", m.Len, m.Ret, m.FinalLen)
	n := len(m.Frame)
	if n > 64 {
		n = 64
	}
	fmt.Fprintf(&b, " frame[0:%d]=%x", n, m.Frame[:n])
	for _, c := range m.Calls {
		switch {
		case c.Helper == "bpf_map_lookup_elem":
			fmt.Fprintf(&b, "\n      %s(%s, key=%x) -> found=%v value=%x", c.Helper, c.Map, c.Key, c.Found, c.Value)
		case c.Map != "":
			fmt.Fprintf(&b, "\n      %s(%s, key=%x) -> %d", c.Helper, c.Map, c.Key, int64(c.Ret))
		default:
			fmt.Fprintf(&b, "\n      %s -> %d", c.Helper, int64(c.Ret))
		}
	}
	return b.String()
}

// DebugModelQuery, when set, receives every model-extraction query and its result.
var DebugModelQuery func(q string, r smt.Result)

// ModelSolvers is the order in which solvers are asked for counterexample
// models.  z3-new (5.1.0) is last on purpose: on these queries (UFs returning
// arrays) it was observed to print (get-value) results that contradict the
// asserted formula (e.g. a return value of 0 under the assertion "return
// value not in {0,2}"), while z3 4.8.12 and cvc5 agree with each other and
// with the native replay.
var ModelSolvers = [][]string{
	{"z3", "-in", "-smt2"},
	{"cvc5", "--lang=smt2", "--produce-models"},
	{"z3-new", "-in", "-smt2"},
}

// modelSolve runs the model-extraction query on the model solvers in turn and
// parses the (get-value) answer of the first one that says sat.
func modelSolve(q string, timeout time.Duration) smt.Result {
	t0 := time.Now()
	for _, argv := range ModelSolvers {
		ctx, cancel := context.WithTimeout(context.Background(), timeout+2*time.Second)
		cmd := exec.CommandContext(ctx, argv[0], argv[1:]...)
		cmd.Stdin = strings.NewReader(q)
		var ob bytes.Buffer
		cmd.Stdout = &ob
		_ = cmd.Run()
		cancel()
		out := strings.TrimSpace(ob.String())
		if !strings.HasPrefix(out, "sat") {
			if strings.HasPrefix(out, "unsat") {
				return smt.Result{Status: "unsat", Solver: argv[0], TimeS: time.Since(t0).Seconds()}
			}
			continue
		}
		vals := parseGetValue(out[3:])
		if len(vals) == 0 {
			continue
		}
		return smt.Result{Status: "sat", Solver: argv[0], TimeS: time.Since(t0).Seconds(), Values: vals}
	}
	return smt.Result{Status: "unknown", Solver: "model-solvers", TimeS: time.Since(t0).Seconds()}
}

// parseGetValue parses "((name value) ...)" where name is a symbol and value
// an atom or a parenthesised literal such as (_ bv5 32).
func parseGetValue(s string) map[string]string {
	out := map[string]string{}
	i, n := 0, len(s)
	skip := func() {
		for i < n && (s[i] == ' ' || s[i] == '\n' || s[i] == '\t' || s[i] == '\r') {
			i++
		}
	}
	atom := func() string {
		j := i
		if i < n && s[i] == '|' {
			i++
			for i < n && s[i] != '|' {
				i++
			}
			i++
			return s[j:i]
		}
		for i < n && !strings.ContainsRune(" \n\t\r()", rune(s[i])) {
			i++
		}
		return s[j:i]
	}
	sexp := func() string {
		// s[i] == '('
		j, d := i, 0
		for i < n {
			if s[i] == '(' {
				d++
			} else if s[i] == ')' {
				d--
				if d == 0 {
					i++
					break
				}
			}
			i++
		}
		return strings.Join(strings.Fields(s[j:i]), " ")
	}
	skip()
	if i >= n || s[i] != '(' {
		return out
	}
	i++
	for {
		skip()
		if i >= n || s[i] == ')' {
			return out
		}
		if s[i] != '(' {
			return out
		}
		i++
		skip()
		var name string
		if i < n && s[i] == '(' {
			name = sexp()
		} else {
			name = atom()
		}
		skip()
		var val string
		if i < n && s[i] == '(' {
			val = sexp()
		} else {
			val = atom()
		}
		skip()
		if i < n && s[i] == ')' {
			i++
		}
		out[name] = val
	}
}
