package check

import (
	"strings"

	"bngvc/govc"
)

// c08Select: every obligation of the pkg/radius units; of the pkg/pppoe units (verified in full under
// C16) only the clauses about Accounting-Start / Accounting-Stop records.
func c08Select(o *govc.Oblig) bool {
	if !strings.HasPrefix(o.Func, "pppoe.") && !strings.HasPrefix(o.Func, "dhcp.") {
		return true
	}
	return strings.Contains(o.ID, "acctSt")
}

// C08, clause "Records carry the session's own identifiers and report 64-bit
// traffic counters exactly through the low-word/gigaword split" only. Merge the
// Funcs / Trusted / Undecided entries into the full C08 definition.
func init() {
	register(&PropDef{
		ID:    "C08",
		Title: "Accounting records carry the session's identifiers and exact 64-bit counters (clause of C08)",
		Pkgs:  []string{"./pkg/radius", "./pkg/pppoe", "./pkg/dhcp", "./pkg/ebpf", "./pkg/qos", "./pkg/nat"},
		Funcs: []string{
			"radius.Client.SendAccounting",
			"radius.addMessageAuthenticator",
			"radius.Client.getServer",
			"radius.formatMAC",
			// PPPoE side of "every started session is accounted to exactly one Stop, never for a session that was not started"
			"pppoe.SessionTeardown.cleanup", "pppoe.SessionTeardown.sendAccountingStop",
			// DHCP side: a new acknowledged session is started exactly once, renewals and refusals start nothing (Stops: C16)
			"dhcp.Server.handleRequest",
			"pppoe.Server.handleIPCPConfigAck", "pppoe.Server.handlePADT", "pppoe.Server.handleLCPTermRequest", "pppoe.Server.endSession", "pppoe.Server.expireSessions",
		},
		Select: c08Select,
		Trusted: []string{
			"engine library model layeh.com/radius: radius.New yields a packet without attributes; the generated setters rfcNNNN.X_Set/X_SetString/X_Add/X_Del record attribute number X_Type := value in ghost state (integer setters cannot fail; string and []byte setters fail and leave the packet unchanged beyond 253 octets; net.IP setters need an IPv4 address); (*Packet).Encode does not modify the packet; radius.Exchange snapshots the attributes of the packet it transmits (rad_sent_*) and does not modify program memory",
			"trusted radius.Client.waitRateLimit: modifies nothing relevant (golang.org/x/time/rate.Limiter.Wait is external)",
			"crypto/hmac.New returns a fresh hash object; context.CancelFunc values have no effect on modelled state",
		},
		Undecided: []string{
			"PPPoE: nothing in pkg/pppoe issues an Accounting-Start (obligation acctStarts == 0 of Server.handleIPCPConfigAck / handlePAP, the places where a session becomes established), so PPPoE sessions are not accounted at all in this repository; the teardown component sends the Stop iff Session.AcctStarted, which only embedding code can set. Delivery, retry and crash recovery of that Stop are not under contract (SessionTeardown calls radius.Client.SendAccounting directly, not the AccountingManager)",
			"the other clauses of C08 (when records are emitted, retry/queueing, interim scheduling) are not covered by these contracts",
			"Calling-Station-Id: formatMAC's result is an uninterpreted fmt.Sprintf string, so only the call is checked, not its format",
			"that AccountingManager copies the session's identifiers and counters into AcctRequest (accounting.go composite literals) is by inspection, not under contract",
			"wire encoding of the attributes inside layeh.com/radius (assumed library)",
			"Acct-Input/Output-Packets have no gigaword companion in RADIUS: the record holds the value mod 2^32 (proved), the high word is not reported by the protocol",
		},
		Assumptions: []string{
			"req is non-nil; all 64-bit counter values are unconstrained",
			"an absent Acct-*-Gigawords attribute means 0 (RFC 2869)",
		},
		Explanation: "PPPoE (clause 'exactly one Stop iff a Start was issued, never for a session that was not started'): SessionTeardown.cleanup issues exactly one Accounting-Stop iff the session left the table through this call, a RADIUS client is configured and Session.AcctStarted holds, and none when the session had already been ended (a second termination sends no second Stop); the PPPoE server's own termination paths (PADT, LCP Terminate-Request, authentication failure, idle timeout, shutdown) and its establishment path issue no accounting record at all. SendAccounting is verified against a contract over the ghost record of the packet handed to radius.Exchange: Acct-Status-Type, NAS-Port, Acct-Session-Id, User-Name, NAS-Identifier, Class and Framed-IP-Address equal the request's fields; for Stop/Interim records Acct-Input/Output-Octets == value mod 2^32, Acct-Input/Output-Gigawords (or 0 when absent) == value div 2^32, hence gigawords*2^32 + octets == value for every uint64; packets, session time and terminate cause likewise; Start/On/Off records carry no counters. addMessageAuthenticator is shown to touch attribute 80 only. One obligation does not discharge and is genuine (replay C08_SendAccounting_identifier_dropped): the errors the string setters return for identifiers longer than 253 octets are discarded, so the record goes out without User-Name / Acct-Session-Id.",
	})
}
