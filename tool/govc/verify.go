package govc

import (
	"fmt"
	"go/ast"
	"go/token"
	"go/types"
	"strings"

	"bngvc/smt"

	"golang.org/x/tools/go/packages"
)

// Oblig is one proof obligation.
type Oblig struct {
	ID      string
	Kind    string // nopanic | requires | ensures | inv | loopinv.init | loopinv.step | variant | lockinv | lemma | unreachable
	Func    string
	Desc    string
	Pos     string
	nAssume int
	pc      smt.Term
	goal    smt.Term
	Inputs  []string // symbols whose model values are requested
	fv      *funcVerifier
	Cand    int  // >=0: Houdini candidate index this obligation checks
	CandLoop string
	CandDesc string
	ForceFail bool // statically known to fail (no solver call): e.g. frame after an un-contracted callee
	Frame    bool // frame obligation: quantified frame axioms are added to the query
	nFrameAx int
	Canary  bool // must be refuted (vacuity guard)
	// assumptions [skipFrom, skipTo) are left out of the query (facts recorded on other
	// paths after this obligation's program point; dropping assumptions is always sound)
	skipFrom, skipTo int
}

// Query renders the SMT-LIB query for the obligation.
func (o *Oblig) Query() string {
	as := o.fv.assumptions[:o.nAssume]
	if o.skipTo > o.skipFrom && o.skipTo <= o.nAssume {
		as = append(append([]smt.Term{}, o.fv.assumptions[:o.skipFrom]...), o.fv.assumptions[o.skipTo:o.nAssume]...)
	}
	if o.Frame && o.nFrameAx > 0 {
		as = append(append([]smt.Term{}, as...), o.fv.frameAxioms[:o.nFrameAx]...)
	}
	return o.fv.c.Query(as, o.pc, o.goal, o.Inputs)
}

// Options control one function verification run.
type Options struct {
	Sweep       bool   // safety sweep: nopanic obligations, default contracts for callees
	AutoInv     bool   // infer loop invariants (Houdini candidates) also outside the sweep
	GoInline    bool   // execute parameterless go func(){...}() closures inline (set by "mode goinline" contracts)
	Property    string // property id prefix for obligation ids
	NoPanic     bool   // generate nopanic obligations
	Variants    bool   // generate loop variant obligations
	Canary      bool
	Disabled    map[string]map[string]bool // per loop key: auto-candidates (by description) dropped by Houdini
	HeapKeys    map[string]string          // heap keys (with sorts) seen in a previous run: pre-registered so loop frame candidates cover them
	ServiceLoops map[string]bool           // loop keys that are intentionally unbounded service loops (no variant obligation)
	SeqCalls     bool                      // callers assume no other thread runs between a call and the callee's lock acquisition (locked(e) at call sites = pre-call state)
	NoIndexCOV   bool                      // disable the change of variable for slice-index binders in spec quantifiers
	// LenientNames: a clause that names an identifier the function no longer has (a renamed or
	// removed local) is skipped with a note instead of rejecting the function; off when a baseline is
	// recorded, so that a misspelt contract is never accepted silently
	LenientNames bool
}

// lockHavoc records an owned field forgotten at a lock acquisition.
type lockHavoc struct {
	fieldKey string
	owner    smt.Term
	old      smt.Term
	fresh    smt.Term
	typ      types.Type
	ghostKey string
}

type loopFrame struct {
	label     string
	isLoop    bool
	breaks    []*State
	continues []*State
}

type deferred struct {
	call *ast.CallExpr
	st   *State // unused; evaluation happens at return
}

type funcVerifier struct {
	prog *Program
	fi   *FuncInfo
	pkg  *packages.Package
	info *types.Info
	opt  Options

	c  *smt.Ctx
	so *sorts

	assumptions []smt.Term
	obligs      []*Oblig
	heapSorts   map[string]string
	baseCache   map[string]smt.Term
	nBase       int
	idCount     map[string]int

	interior []interiorPtr // &s[i] pointers created so far
	boxed    map[*types.Var]bool
	copyArr  map[*ast.SliceExpr]*types.Var // copy(x[:], src) on a local array x, modelled in place
	volatile map[*types.Var]bool
	volField map[string]bool

	sig        *types.Signature
	recv       *types.Var
	params     []*types.Var
	results    []*types.Var
	entry      *State
	exits      []*State
	loops      []*loopFrame
	defers     []*ast.CallExpr
	loopOrd    int
	inputs     []string
	inputDescr map[string]string

	mut         int
	frameFacts  []frameFact
	frameAxioms []smt.Term
	frameInst   map[string]int
	sentinels   []string
	volMem      map[string]bool
	deferGuards []smt.Term
	inDeferLit  bool
	nQuant      int
	preconds    []smt.Term
	exit        *State
	entryBase   *heapBase
	lockSnap    *State
	lockSnapBy  map[string]*State // latest acquisition snapshot per (type.mutex@owner)
	lockReadBy  map[string]bool   // whether that acquisition was an RLock
	lockHavocs  []lockHavoc
	iterSnaps   []*State // loop-head states of the enclosing loops (for iteration clauses)
	wildHavoc   bool // the whole heap was forgotten outside a loop head (un-contracted callee, undeclared lock)
	inLoopHavoc bool
	ghostTypes  map[string]types.Type
	lockSnaps   []*State
	localKeep   map[string]bool // sort names of function-local struct types that never escape (see havocAll)
	unlockSnaps []*State       // states right before each release of an owned mutex (program order)
	exitAssume  []int          // number of assumptions recorded when each exit was taken
	callOrd     map[string]int // external callee full name -> calls seen so far (call-site contracts)

	notes   []string // abstractions applied (reported in evidence)
	reject  string   // non-empty: function outside the supported subset
	spec    *FuncSpec
	specEnv *specEnv
	candLog map[string][]string // loop key -> candidate descriptions
}

func (fv *funcVerifier) note(format string, args ...interface{}) {
	s := fmt.Sprintf(format, args...)
	for _, n := range fv.notes {
		if n == s {
			return
		}
	}
	fv.notes = append(fv.notes, s)
}

func (fv *funcVerifier) rejectf(format string, args ...interface{}) {
	if fv.reject == "" {
		fv.reject = fmt.Sprintf(format, args...)
	}
}

func (fv *funcVerifier) oblID(kind, desc string) string {
	d := smt.Sanitize(strings.Join(strings.Fields(desc), ""))
	if len(d) > 48 {
		d = d[:48]
	}
	base := fmt.Sprintf("%s.%s.%s[%s]", fv.opt.Property, fv.fi.Key, kind, d)
	n := fv.idCount[base]
	fv.idCount[base] = n + 1
	if n > 0 {
		base = fmt.Sprintf("%s#%d", base, n+1)
	}
	return base
}

// assert records an obligation and then assumes it.
func (fv *funcVerifier) assert(st *State, kind, desc string, pos token.Pos, goal smt.Term) *Oblig {
	// a postcondition that folds to true (ghost counters with literal values) stays an
	// obligation, so that it is counted and a later change that breaks it has a named predecessor
	if st.dead() || (goal.IsTrue() && kind != "ensures") {
		return nil
	}
	o := &Oblig{ID: fv.oblID(kind, desc), Kind: kind, Func: fv.fi.Key, Desc: desc, nAssume: len(fv.assumptions),
		pc: st.live, goal: goal, fv: fv, Inputs: fv.inputs, Cand: -1, nFrameAx: len(fv.frameAxioms), Frame: kind == "frame"}
	if pos.IsValid() {
		o.Pos = fv.prog.Pos(pos)
	}
	fv.obligs = append(fv.obligs, o)
	if kind == "ensures" && fv.spec != nil && fv.spec.Indep {
		// "indep": the clause is proved on its own and not assumed for the clauses after it,
		// so that one violated postcondition cannot make the following ones pass vacuously
		return o
	}
	fv.assume(st, goal)
	return o
}

func (fv *funcVerifier) exprStr(e ast.Expr) string {
	return types.ExprString(e)
}

// FuncResult is the outcome of generating VCs for one function.
type FuncResult struct {
	Key        string
	Obligs     []*Oblig
	Notes      []string
	Reject     string
	Candidates map[string][]string
	HeapKeys   map[string]string
}

// VerifyFunc generates the obligations of one function.
func (p *Program) VerifyFunc(fi *FuncInfo, opt Options) (res *FuncResult) {
	fv := &funcVerifier{prog: p, fi: fi, pkg: fi.Pkg, info: fi.Pkg.TypesInfo, opt: opt,
		c: smt.NewCtx(), heapSorts: map[string]string{}, baseCache: map[string]smt.Term{}, idCount: map[string]int{},
		boxed: map[*types.Var]bool{}, volatile: map[*types.Var]bool{}, volField: map[string]bool{},
		inputDescr: map[string]string{}, candLog: map[string][]string{}, volMem: map[string]bool{}, frameInst: map[string]int{}, ghostTypes: map[string]types.Type{}}
	fv.so = newSorts(fv.c)
	fv.localKeep = fv.computeLocalTypes()
	for k, so := range opt.HeapKeys {
		fv.heapSorts[k] = so
	}
	res = &FuncResult{Key: fi.Key}
	defer func() {
		if r := recover(); r != nil {
			if u, ok := r.(unsupported); ok {
				res.Reject = string(u)
				res.Obligs = nil
				return
			}
			panic(r)
		}
	}()
	fv.run()
	fv.so.distinctStrAxiom()
	if len(fv.sentinels) > 1 {
		fv.c.Axiom("", smt.Term{S: "(distinct " + strings.Join(fv.sentinels, " ") + ")", Sort: smt.Bool}, fv.sentinels...)
	}
	res.Obligs = fv.obligs
	res.Notes = fv.notes
	res.Reject = fv.reject
	res.Candidates = fv.candLog
	res.HeapKeys = fv.heapSorts
	return res
}

type unsupported string

func (fv *funcVerifier) unsupported(format string, args ...interface{}) {
	panic(unsupported(fmt.Sprintf(format, args...)))
}

func (fv *funcVerifier) run() {
	fd := fv.fi.Decl
	fv.sig = fv.fi.Obj.Type().(*types.Signature)
	st := &State{live: smt.True, vars: map[*types.Var]smt.Term{}, heap: map[string]smt.Term{}, ghost: map[string]smt.Term{}}
	st.base = fv.newBase()
	fv.entryBase = st.base
	st.frontier = fv.c.Const("frontier0", smt.Int)
	st.now = fv.c.Const("now0", smt.Int)
	fv.assumeGlobal(smt.Ge(st.frontier, smt.IntLit(0)))
	fv.assumeGlobal(smt.Gt(st.now, smt.IntLit(0)))
	fv.prescan(fd.Body)

	bind := func(v *types.Var, role string) {
		if v == nil {
			return
		}
		name := v.Name()
		if name == "" || name == "_" {
			name = role
		}
		t := fv.c.Const("in_"+smt.Sanitize(name), fv.so.sortOf(v.Type()))
		fv.inputs = append(fv.inputs, t.S)
		fv.inputDescr[t.S] = name
		fv.assumeGlobal(fv.so.valid(t, v.Type(), st.frontier))
		if v.Type().String() == "context.Context" {
			fv.assumeGlobal(smt.Ne(t, smt.IntLit(0))) // idiom: contexts are never nil
		}
		fv.declVar(st, v, t)
	}
	if fv.sig.Recv() != nil {
		fv.recv = fv.sig.Recv()
		bind(fv.recv, "recv")
		if _, isPtr := fv.recv.Type().Underlying().(*types.Pointer); isPtr {
			// methods are verified for non-nil receivers; call sites carry the nil check
			fv.assumeGlobal(smt.Ne(st.vars[fv.recv], smt.IntLit(0)))
		}
	}
	for i := 0; i < fv.sig.Params().Len(); i++ {
		v := fv.sig.Params().At(i)
		fv.params = append(fv.params, v)
		bind(v, fmt.Sprintf("p%d", i))
	}
	for i := 0; i < fv.sig.Results().Len(); i++ {
		v := fv.sig.Results().At(i)
		fv.results = append(fv.results, v)
		fv.declVar(st, v, fv.so.zero(v.Type()))
	}
	fv.entry = st.clone()
	fv.setupSpec(st)
	fv.checkLemmas(st)
	fv.assumeRequires(st)
	fv.execBlock(st, fd.Body.List)
	if !st.dead() {
		// fall off the end
		fv.doReturn(st, nil, fd.Body.Rbrace)
	}
	fv.finishExits()
}

// declVar introduces a local variable with an initial value.
func (fv *funcVerifier) declVar(st *State, v *types.Var, init smt.Term) {
	if fv.boxed[v] {
		r := fv.alloc(st, v.Name())
		st.vars[v] = r
		fv.storeAt(st, r, v.Type(), init)
		return
	}
	st.vars[v] = fv.c.Let("v_"+v.Name(), init)
}

// prescan finds address-taken and closure-captured variables.
func (fv *funcVerifier) prescan(body *ast.BlockStmt) {
	var inLit int
	var walk func(n ast.Node) bool
	litAssigned := map[*types.Var]bool{}
	walk = func(n ast.Node) bool {
		switch x := n.(type) {
		case *ast.UnaryExpr:
			if x.Op == token.AND {
				if id, ok := ast.Unparen(x.X).(*ast.Ident); ok {
					if v, ok := fv.info.Uses[id].(*types.Var); ok && !v.IsField() && v.Pkg() != nil && v.Parent() != v.Pkg().Scope() {
						fv.boxed[v] = true
					}
				}
				// &x.f on a local struct value
				if sel, ok := ast.Unparen(x.X).(*ast.SelectorExpr); ok {
					if id, ok := ast.Unparen(sel.X).(*ast.Ident); ok {
						if v, ok := fv.info.Uses[id].(*types.Var); ok && !v.IsField() {
							if _, isPtr := v.Type().Underlying().(*types.Pointer); !isPtr {
								fv.volatile[v] = true
							}
						}
					}
				}
			}
		case *ast.FuncLit:
			inLit++
			ast.Inspect(x.Body, func(m ast.Node) bool {
				switch y := m.(type) {
				case *ast.AssignStmt:
					for _, l := range y.Lhs {
						if id, ok := ast.Unparen(l).(*ast.Ident); ok {
							if v, ok := fv.info.Uses[id].(*types.Var); ok {
								litAssigned[v] = true
							}
						}
					}
				case *ast.IncDecStmt:
					if id, ok := ast.Unparen(y.X).(*ast.Ident); ok {
						if v, ok := fv.info.Uses[id].(*types.Var); ok {
							litAssigned[v] = true
						}
					}
				case *ast.UnaryExpr:
					if y.Op == token.AND {
						if id, ok := ast.Unparen(y.X).(*ast.Ident); ok {
							if v, ok := fv.info.Uses[id].(*types.Var); ok {
								litAssigned[v] = true
							}
						}
					}
				}
				return true
			})
			inLit--
			return false
		case *ast.CallExpr:
			// copy(x[:], src) with x a local array variable: modelled as an update of the
			// array value (no aliasing is created because the slice does not escape)
			if id, ok := ast.Unparen(x.Fun).(*ast.Ident); ok && id.Name == "copy" && len(x.Args) == 2 {
				if _, isBuiltin := fv.info.Uses[id].(*types.Builtin); isBuiltin {
					if se, ok := ast.Unparen(x.Args[0]).(*ast.SliceExpr); ok && se.Low == nil && se.High == nil && se.Max == nil {
						if aid, ok := ast.Unparen(se.X).(*ast.Ident); ok {
							if v, ok := fv.info.Uses[aid].(*types.Var); ok && !v.IsField() && v.Pkg() != nil && v.Parent() != v.Pkg().Scope() {
								if _, isArr := v.Type().Underlying().(*types.Array); isArr && inLit == 0 {
									if fv.copyArr == nil {
										fv.copyArr = map[*ast.SliceExpr]*types.Var{}
									}
									fv.copyArr[se] = v
								}
							}
						}
					}
				}
			}
		case *ast.SliceExpr:
			if fv.copyArr[x] != nil {
				return true
			}
			// slicing an array-typed variable aliases it
			if tv, ok := fv.info.Types[x.X]; ok {
				if _, isArr := tv.Type.Underlying().(*types.Array); isArr {
					fv.markVolatileExpr(x.X)
				}
			}
		}
		return true
	}
	ast.Inspect(body, walk)
	for v := range litAssigned {
		if v.Pkg() != nil && v.Parent() != v.Pkg().Scope() && !v.IsField() {
			fv.volatile[v] = true
		}
	}
}

func (fv *funcVerifier) markVolatileExpr(e ast.Expr) {
	switch x := ast.Unparen(e).(type) {
	case *ast.Ident:
		if v, ok := fv.info.Uses[x].(*types.Var); ok {
			fv.volatile[v] = true
		}
	case *ast.SelectorExpr:
		if sel, ok := fv.info.Selections[x]; ok {
			if v, ok := sel.Obj().(*types.Var); ok {
				fv.volField[v.Name()] = true
			}
		}
	}
}

// ParamInfo describes one input of the function an obligation belongs to.
type ParamInfo struct {
	Name   string
	Symbol string
	GoType string
	Recv   bool
}

// Params lists receiver and parameters with their SMT input symbols.
func (o *Oblig) Params() []ParamInfo {
	fv := o.fv
	var out []ParamInfo
	q := func(p *types.Package) string { return p.Name() }
	if fv.recv != nil {
		out = append(out, ParamInfo{fv.recv.Name(), "in_" + smt.Sanitize(nameOr(fv.recv.Name(), "recv")), types.TypeString(fv.recv.Type(), q), true})
	}
	for i, p := range fv.params {
		out = append(out, ParamInfo{p.Name(), "in_" + smt.Sanitize(nameOr(p.Name(), fmt.Sprintf("p%d", i))), types.TypeString(p.Type(), q), false})
	}
	return out
}

func nameOr(n, d string) string {
	if n == "" || n == "_" {
		return d
	}
	return n
}

// InitMem returns the symbol of the entry-state element memory for an element sort.
func (o *Oblig) InitMem(elemSort string) string {
	key := "mem:" + elemSort
	o.fv.regHeap(key, smt.Arr(smt.Int, smt.Arr(smt.Int, elemSort)))
	return o.fv.baseLookup(o.fv.entryBase, key).S
}

// QueryWith renders the query with extra assertions and requested values;
// dropQuant removes quantified assumptions (model search only: weaker
// assumptions can only add candidate models, which are then replayed).
func (o *Oblig) QueryWith(extra []smt.Term, getValues []string, dropQuant bool) string {
	var as []smt.Term
	for _, a := range o.fv.assumptions[:o.nAssume] {
		if dropQuant && (strings.Contains(a.S, "(forall ") || strings.Contains(a.S, "(exists ")) {
			continue
		}
		as = append(as, a)
	}
	as = append(as, extra...)
	return o.fv.c.Query(as, o.pc, o.goal, getValues)
}

// PkgPath returns the import path of the package of the obligation's function.
func (o *Oblig) PkgPath() string { return o.fv.pkg.PkgPath }

// FuncName returns the bare function name and receiver type name ("" if none).
func (o *Oblig) FuncName() (name, recv string) {
	name = o.fv.fi.Obj.Name()
	if o.fv.recv != nil {
		if n, ok := derefNamed(o.fv.recv.Type()); ok {
			recv = n.Obj().Name()
		}
	}
	return
}
