package allocator

import (
	"fmt"
	"testing"
)

// A persisted state whose bitmap and allocation map disagree (two subscribers on
// index 0, bitmap empty) is accepted as-is; the restored allocator then hands
// the prefix of a recorded holder to a new subscriber.
func TestReplayVC(t *testing.T) {
	a, _ := NewIPAllocator("10.0.0.0/24", 32)
	doc := []byte(`{"base_network":"10.0.0.0/24","prefix_length":32,"bitmap":"0","allocated":{"alice":0,"bob":0}}`)
	if err := a.UnmarshalJSON(doc); err != nil {
		fmt.Println("REPLAY-OK (rejected:", err, ")")
		return
	}
	pa, pb := a.Lookup("alice"), a.Lookup("bob")
	pc, _ := a.Allocate("carol")
	if pa != nil && pb != nil && pa.String() == pb.String() {
		fmt.Printf("REPLAY-VIOLATED: after restore alice and bob both hold %s; new subscriber carol got %v\n", pa, pc)
		return
	}
	fmt.Println("REPLAY-OK")
}
