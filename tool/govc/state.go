package govc

import (
	"fmt"
	"go/ast"
	"go/types"
	"sort"
	"strings"

	"bngvc/smt"
)

// heapBase names the not-yet-materialised part of a heap.
type heapBase struct {
	id   int
	cond smt.Term
	a, b *heapBase
}

// State is a symbolic program state guarded by a liveness condition.
type State struct {
	live     smt.Term
	vars     map[*types.Var]smt.Term
	heap     map[string]smt.Term
	base     *heapBase
	frontier smt.Term
	now      smt.Term
	ghost    map[string]smt.Term
}

func (s *State) clone() *State {
	n := &State{live: s.live, base: s.base, frontier: s.frontier, now: s.now,
		vars: make(map[*types.Var]smt.Term, len(s.vars)), heap: make(map[string]smt.Term, len(s.heap)),
		ghost: make(map[string]smt.Term, len(s.ghost))}
	for k, v := range s.vars {
		n.vars[k] = v
	}
	for k, v := range s.heap {
		n.heap[k] = v
	}
	for k, v := range s.ghost {
		n.ghost[k] = v
	}
	return n
}

func (s *State) dead() bool { return s.live.IsFalse() }

// heapSort returns the array sort stored under a heap key.
func (fv *funcVerifier) heapSortOf(key string) string {
	so, ok := fv.heapSorts[key]
	if !ok {
		panic("unknown heap key " + key)
	}
	return so
}

func (fv *funcVerifier) regHeap(key, sort string) {
	if old, ok := fv.heapSorts[key]; ok && old != sort {
		panic(fmt.Sprintf("heap key %s registered with sorts %s and %s", key, old, sort))
	}
	fv.heapSorts[key] = sort
}

func (fv *funcVerifier) baseLookup(b *heapBase, key string) smt.Term {
	if b.a == nil {
		return fv.c.Const(fmt.Sprintf("H%d_%s", b.id, smt.Sanitize(key)), fv.heapSortOf(key))
	}
	ck := fmt.Sprintf("%d/%s", b.id, key)
	if t, ok := fv.baseCache[ck]; ok {
		return t
	}
	t := fv.c.Let("Hm_"+key, smt.Ite(b.cond, fv.baseLookup(b.a, key), fv.baseLookup(b.b, key)))
	fv.baseCache[ck] = t
	return t
}

func (fv *funcVerifier) heapGet(st *State, key string) smt.Term {
	if t, ok := st.heap[key]; ok {
		return t
	}
	t := fv.baseLookup(st.base, key)
	st.heap[key] = t
	return t
}

func (fv *funcVerifier) heapSet(st *State, key string, t smt.Term) {
	st.heap[key] = fv.c.Let("H_"+key, t)
}

func (fv *funcVerifier) newBase() *heapBase {
	fv.nBase++
	return &heapBase{id: fv.nBase}
}

// havocAll forgets the whole heap (unknown callee, lock acquisition).
func (fv *funcVerifier) havocAll(st *State) {
	if st.dead() {
		return
	}
	if !fv.inLoopHavoc {
		fv.wildHavoc = true
	}
	// Objects of a type declared inside this function that never leave it (no value mentioning
	// the type is passed to any call) cannot be reached by a callee or another thread: their
	// field and element memories survive a havoc that is not the function's own loop havoc.
	keep := map[string]smt.Term{}
	if !fv.inLoopHavoc && len(fv.localKeep) > 0 {
		var ks []string
		for k := range fv.heapSorts {
			ks = append(ks, k)
		}
		sort.Strings(ks)
		for _, k := range ks {
			if fv.isLocalTypeKey(k) {
				keep[k] = fv.heapGet(st, k)
			}
		}
	}
	st.heap = map[string]smt.Term{}
	st.base = fv.newBase()
	for k, v := range keep {
		st.heap[k] = v
	}
	nf := fv.c.Fresh("frontier", smt.Int)
	fv.assume(st, smt.Ge(nf, st.frontier))
	st.frontier = nf
}

// havocKeys forgets the given heap arrays.
func (fv *funcVerifier) havocKeys(st *State, keys []string) {
	for _, k := range keys {
		st.heap[k] = fv.c.Fresh("Hh_"+k, fv.heapSortOf(k))
	}
}

// merge joins two states whose liveness conditions are disjoint.
func (fv *funcVerifier) merge(a, b *State) *State {
	if a == nil || a.dead() {
		if b == nil {
			return a
		}
		return b
	}
	if b == nil || b.dead() {
		return a
	}
	cond := a.live
	n := &State{vars: map[*types.Var]smt.Term{}, heap: map[string]smt.Term{}, ghost: map[string]smt.Term{}}
	n.live = fv.c.Let("pc", smt.Or(a.live, b.live))
	// deterministic order: the names of merged values (and so the query text) must not depend on
	// map iteration order
	avars := make([]*types.Var, 0, len(a.vars))
	for k := range a.vars {
		avars = append(avars, k)
	}
	sort.Slice(avars, func(i, j int) bool {
		if avars[i].Pos() != avars[j].Pos() {
			return avars[i].Pos() < avars[j].Pos()
		}
		return avars[i].Name() < avars[j].Name()
	})
	for _, k := range avars {
		va := a.vars[k]
		if vb, ok := b.vars[k]; ok {
			if va.S == vb.S {
				n.vars[k] = va
			} else {
				n.vars[k] = fv.c.Let("m_"+k.Name(), smt.Ite(cond, va, vb))
			}
		}
	}
	keys := map[string]bool{}
	for k := range a.heap {
		keys[k] = true
	}
	for k := range b.heap {
		keys[k] = true
	}
	ks := make([]string, 0, len(keys))
	for k := range keys {
		ks = append(ks, k)
	}
	sort.Strings(ks)
	for _, k := range ks {
		va := fv.heapGet(a, k)
		vb := fv.heapGet(b, k)
		if va.S == vb.S {
			n.heap[k] = va
		} else {
			n.heap[k] = fv.c.Let("Hm_"+k, smt.Ite(cond, va, vb))
		}
	}
	if a.base == b.base {
		n.base = a.base
	} else {
		nb := fv.newBase()
		nb.cond, nb.a, nb.b = cond, a.base, b.base
		n.base = nb
	}
	if a.frontier.S == b.frontier.S {
		n.frontier = a.frontier
	} else {
		n.frontier = fv.c.Let("frontier", smt.Ite(cond, a.frontier, b.frontier))
	}
	if a.now.S == b.now.S {
		n.now = a.now
	} else {
		n.now = fv.c.Let("now", smt.Ite(cond, a.now, b.now))
	}
	gks := make([]string, 0, len(a.ghost))
	for k := range a.ghost {
		gks = append(gks, k)
	}
	sort.Strings(gks)
	for _, k := range gks {
		va := a.ghost[k]
		if vb, ok := b.ghost[k]; ok {
			if va.S == vb.S {
				n.ghost[k] = va
			} else {
				n.ghost[k] = fv.c.Let("g_"+k, smt.Ite(cond, va, vb))
			}
		}
	}
	return n
}

// assume records a fact holding whenever st is live.
func (fv *funcVerifier) assume(st *State, f smt.Term) {
	if f.IsTrue() || st.dead() {
		return
	}
	fv.assumptions = append(fv.assumptions, smt.Implies(st.live, f))
}

// assumeGlobal records an unconditional fact (definitional).
func (fv *funcVerifier) assumeGlobal(f smt.Term) {
	if f.IsTrue() {
		return
	}
	fv.assumptions = append(fv.assumptions, f)
}

// restrict conjoins a condition to the liveness of st.
func (fv *funcVerifier) restrict(st *State, cond smt.Term) {
	st.live = fv.c.Let("pc", smt.And(st.live, cond))
}

// alloc returns a fresh reference.
func (fv *funcVerifier) alloc(st *State, hint string) smt.Term {
	r := fv.c.Fresh("ref_"+hint, smt.Int)
	fv.assumeGlobal(smt.Eq(r, smt.Add(st.frontier, smt.IntLit(1))))
	st.frontier = r
	return r
}

// isLocalTypeKey reports whether a heap key is the element memory or a field array of a
// function-local, non-escaping struct type.
func (fv *funcVerifier) isLocalTypeKey(k string) bool {
	if strings.HasPrefix(k, "mem:") {
		return fv.localKeep[strings.TrimPrefix(k, "mem:")]
	}
	if i := strings.LastIndex(k, "."); i > 0 {
		return fv.localKeep[k[:i]]
	}
	return false
}

// computeLocalTypes returns the sort names of struct types declared inside the function body
// of which no value (directly, or inside a slice, pointer, array, map or struct) is ever passed
// as an argument to a call (conversions and builtins excepted).
func (fv *funcVerifier) computeLocalTypes() map[string]bool {
	out := map[string]bool{}
	if fv.fi.Decl == nil || fv.fi.Decl.Body == nil {
		return out
	}
	var locals []*types.Named
	ast.Inspect(fv.fi.Decl.Body, func(n ast.Node) bool {
		if ts, ok := n.(*ast.TypeSpec); ok {
			if tn, ok := fv.info.Defs[ts.Name].(*types.TypeName); ok {
				if nm, ok := tn.Type().(*types.Named); ok {
					if _, isStruct := nm.Underlying().(*types.Struct); isStruct {
						locals = append(locals, nm)
					}
				}
			}
		}
		return true
	})
	if len(locals) == 0 {
		return out
	}
	var mentions func(t types.Type, nm *types.Named, depth int) bool
	mentions = func(t types.Type, nm *types.Named, depth int) bool {
		if t == nil || depth > 6 {
			return false
		}
		if n, ok := t.(*types.Named); ok {
			if n == nm {
				return true
			}
			return mentions(n.Underlying(), nm, depth+1)
		}
		switch u := t.(type) {
		case *types.Pointer:
			return mentions(u.Elem(), nm, depth+1)
		case *types.Slice:
			return mentions(u.Elem(), nm, depth+1)
		case *types.Array:
			return mentions(u.Elem(), nm, depth+1)
		case *types.Map:
			return mentions(u.Key(), nm, depth+1) || mentions(u.Elem(), nm, depth+1)
		case *types.Chan:
			return mentions(u.Elem(), nm, depth+1)
		case *types.Struct:
			for i := 0; i < u.NumFields(); i++ {
				if mentions(u.Field(i).Type(), nm, depth+1) {
					return true
				}
			}
		}
		return false
	}
	escaped := map[*types.Named]bool{}
	ast.Inspect(fv.fi.Decl.Body, func(n ast.Node) bool {
		switch x := n.(type) {
		case *ast.CallExpr:
			if tv, ok := fv.info.Types[x.Fun]; ok && tv.IsType() {
				return true
			}
			if id, ok := ast.Unparen(x.Fun).(*ast.Ident); ok {
				if _, isB := fv.info.Uses[id].(*types.Builtin); isB {
					return true
				}
			}
			for _, a := range x.Args {
				for _, nm := range locals {
					if mentions(fv.info.TypeOf(a), nm, 0) {
						escaped[nm] = true
					}
				}
			}
		case *ast.SendStmt, *ast.GoStmt:
			for _, nm := range locals {
				escaped[nm] = true
			}
		case *ast.ReturnStmt:
			for _, r := range x.Results {
				for _, nm := range locals {
					if mentions(fv.info.TypeOf(r), nm, 0) {
						escaped[nm] = true
					}
				}
			}
		}
		return true
	})
	for _, nm := range locals {
		if !escaped[nm] {
			out[fv.so.structName(nm)] = true
		}
	}
	return out
}
