package nat

// Replay for obligation C10.nat.NewManager.ensures[err == nil ==> ... natCfgOK(result)]:
// NewManager accepts port ranges / block sizes for which the uint16 conversions in
// AllocateNAT overflow; the resulting block lies outside the configured range.

import (
	"fmt"
	"net"
	"testing"

	"go.uber.org/zap"
)

func TestReplayVC(t *testing.T) {
	defer func() {
		if r := recover(); r != nil {
			fmt.Printf("REPLAY-PANIC: %v\n", r)
		}
	}()
	cfg := ManagerConfig{Interface: "eth0", PortsPerSubscriber: 4000, PortRangeStart: 60000, PortRangeEnd: 70000}
	m, err := NewManager(cfg, zap.NewNop())
	if err != nil {
		fmt.Println("REPLAY-OK (configuration rejected)")
		return
	}
	m.AddPublicIP(net.ParseIP("203.0.113.1"))
	m.AllocateNAT(net.ParseIP("10.0.0.1"))
	b, err := m.AllocateNAT(net.ParseIP("10.0.0.2"))
	if err == nil && (int(b.PortStart) < cfg.PortRangeStart || b.PortEnd < b.PortStart || int(b.PortEnd)-int(b.PortStart)+1 != cfg.PortsPerSubscriber) {
		fmt.Printf("REPLAY-VIOLATED: accepted config range [%d,%d] size %d produced block %d-%d\n", cfg.PortRangeStart, cfg.PortRangeEnd, cfg.PortsPerSubscriber, b.PortStart, b.PortEnd)
		return
	}
	fmt.Println("REPLAY-OK")
}
